"""Per-property run configuration of ./check (case counts, shards, budgets)."""

TRUST = [
    "Go toolchain, pgregory.net/rapid, Cosmos SDK v0.50.8 bank/auth/distribution/baseapp/collections are trusted as the observation instrument",
    "the harness (generators, interpreter, big-integer reference models) is correct; its sensitivity was exercised on seeded changes (DESIGN.md section 8)",
    "absence is not established: the property held on the generated cases only",
]


def K(test, quick=400, thorough=4000, shards=12, level="exploration", pkg="world", qtimeout=300, ttimeout=3000, qenv=None, tenv=None, assumptions=None, qshards=1):
    return {
        "pkg": pkg, "test": test, "level": level,
        "quick": {"checks": quick, "shards": qshards, "timeout": qtimeout, "shrinktime": "10s", "env": qenv or {}},
        "thorough": {"checks": thorough, "shards": shards, "timeout": ttimeout, "shrinktime": "30s", "env": tenv or {}},
        "assumptions": TRUST + (assumptions or []),
    }


CHECKS = {
    "C01": K("TestC01", quick=600, thorough=12000),
    "C02": K("TestC02", quick=600, thorough=12000),
    "C03": K("TestC03(K|D)", quick=500, thorough=6000, qenv={"VERIF_D_FACTOR": 20}, tenv={"VERIF_D_FACTOR": 50}),
    "C04": K("TestC04(K|D)", quick=500, thorough=6000, qenv={"VERIF_D_FACTOR": 20}, tenv={"VERIF_D_FACTOR": 50}),
    "C05": K("TestC05", quick=800, thorough=12000),
    "C06": K("TestC06", quick=800, thorough=12000),
    "C07": K("TestC07(K|A)", quick=300, thorough=3000, level="fault_enumeration", qenv={"VERIF_A_LIMIT": 120}, tenv={"VERIF_A_LIMIT": 1000}),
    "C08": K("TestC08(K|A)", quick=600, thorough=7000, qenv={"VERIF_A_LIMIT": 80}, tenv={"VERIF_A_LIMIT": 800}),
    "C09": K("TestC09(K|D)", quick=400, thorough=6000, qenv={"VERIF_D_FACTOR": 3}, tenv={"VERIF_D_FACTOR": 5}),
    "C10": K("TestC10(K|A)", quick=400, thorough=3000, pkg="cli", qenv={"VERIF_A_LIMIT": 100}, tenv={"VERIF_A_LIMIT": 1000}),
    "C11": K("TestC11", quick=600, thorough=12000),
    "C12": K("TestC12", quick=600, thorough=12000),
    "C13": K("TestC13", quick=600, thorough=12000),
    "C14": K("TestC14(A|Hooks)", quick=80, thorough=800),
    "C15": K("TestC15", quick=400, thorough=5000),
    "C16": K("TestC16", quick=400, thorough=4000),
    "C17": K("TestC17(H|W|D)?", quick=1500, thorough=10000, level="fault_enumeration", qenv={"VERIF_A_LIMIT": 150}, tenv={"VERIF_A_LIMIT": 1500}),
    "C18": K("TestC18(K|A)", quick=900, thorough=4000, qenv={"VERIF_A_LIMIT": 100}, tenv={"VERIF_A_LIMIT": 800}),
    "C19": K("TestC19", quick=500, thorough=5000),
    "C20": K("TestC20(Binary|Chain)?", quick=150, thorough=1200, pkg="cli"),
}
