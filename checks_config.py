"""Per-property run configuration of ./check (case counts, shards, budgets)."""

TRUST = [
    "Go toolchain, pgregory.net/rapid, Cosmos SDK v0.50.8 bank/auth/distribution/baseapp/collections are trusted as the observation instrument",
    "the harness (generators, interpreter, big-integer reference models) is correct; its sensitivity was exercised on seeded changes (DESIGN.md section 8)",
    "absence is not established: the property held on the generated cases only",
]


def K(test, quick=400, thorough=4000, shards=12, level="exploration", pkg="world", qtimeout=300, ttimeout=1500, qenv=None, tenv=None, assumptions=None, qshards=1):
    return {
        "pkg": pkg, "test": test, "level": level,
        "quick": {"checks": quick, "shards": qshards, "timeout": qtimeout, "shrinktime": "10s", "env": qenv or {}},
        "thorough": {"checks": thorough, "shards": shards, "timeout": ttimeout, "shrinktime": "30s", "env": tenv or {}},
        "assumptions": TRUST + (assumptions or []),
    }


CHECKS = {
    "C01": K("TestC01", quick=600, thorough=5000),
}
