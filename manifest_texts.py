HOOK_COMMITS = []
NOT_APPLICABLE = {}

NOTE_K = "Trusted: Go toolchain, rapid, Cosmos SDK (bank, distribution, baseapp, collections) as observation instrument, and the harness' own big-integer reference arithmetic. Exploration only: the property held on the generated cases within the stated bounds (histories <= 60-70 generated ops plus a deterministic drive to completion, <= 4-5 concurrent auctions, 8 fixed accounts, amounts <= 1e33 in the main domain, prices 1e-18..1e6); absence of violations outside the sampled region is not established."
NOTE_A = NOTE_K + " Application-level parts run signed zero-fee transactions through FinalizeBlock/Commit on fresh in-memory applications with a deterministic genesis."

def T(engine, ref, technique, text, note=NOTE_K):
    return {"engine": engine, "design_ref": ref, "technique": technique, "level_text": text, "level_note": note}

TEXTS = {
 "C01": T("K", "DESIGN.md 3.C01", "stateful property-based testing (rapid): shadow-ledger invariant after every operation",
   "Randomised search over generated multi-auction histories (600 quick / 60 000 thorough): after EVERY operation every escrow balance in every denomination must EQUAL what the stored records owe (offered amount, sum of ceil(amount*price)/worth over bids, unreleased instalments) plus recorded unswept third-party donations. Samples interleavings, boundary block times and 18-decimal roundings unit tests do not; not a proof."),
 "C02": T("K", "DESIGN.md 3.C02", "stateful PBT: per-operation zero-sum / charge oracle + final per-participant accounting from the observed bank transfer list",
   "Generated histories under every fee setting and tight balances, driven to the final vesting release: per operation conservation, only-the-signer-pays-exactly-fee+reservation, fee lands in the community pool; at finished/cancelled every participant's receipts equal the reference dues. Exploration, not proof."),
 "C03": T("K+D", "DESIGN.md 3.C03", "PBT with a reference model: big-integer linear-scan clearing vs the module's binary search (direct order books + message-built books)",
   "10 000 (quick) to 2 000 000+ (thorough) generated order books with ties, dust at the top price and binding caps compared with an independent reference clearing; plus settled histories. The reference is a direct transcription of the property statement."),
 "C04": T("K+D", "DESIGN.md 3.C04", "PBT with exact-rational bounds on payments (reference model) for batch and fixed-price bids",
   "Generated prices with non-terminating expansions and dust amounts; per bidder what actually left the account minus the refund must lie within price*quantity <= payment < price*quantity + matched bids (exact sum of ceilings when the cap does not bind), never above the reservation; fixed-price bids are charged the exact formula. Exploration."),
 "C05": T("K", "DESIGN.md 3.C05", "stateful PBT: receipts vs allowance-at-the-right-moment, request and supply",
   "Histories biased to several bids per bidder, cap updates between bids and modifications above the cap; every accepted fixed-price bid and every settlement is checked against the allowance read at the right moment, the request and the supply. Exploration."),
 "C06": T("K", "DESIGN.md 3.C06", "model-based stateful PBT: predictive acceptance rule and exact remainder for fixed-price auctions",
   "Long generated bid sequences around the remainder and allowance boundaries; accept/reject must agree with the predictive rule and the published remainder must equal offered minus accepted after every operation. Exploration."),
 "C07": T("K+A", "DESIGN.md 3.C07", "stateful PBT + exhaustive single-fault injection per block (bank send restriction) + application-level FinalizeBlock runs",
   "Every generated block (incl. blocks after terminal states, empty books, extreme class) must process without error or panic at module and FinalizeBlock level; for every block with m<=16 transfers ALL m single-transfer faults are injected (sampled above) and each must surface as an error. Fault enumeration is exhaustive per explored block, the set of blocks is sampled.", NOTE_A),
 "C08": T("K+A", "DESIGN.md 3.C08", "model-based stateful PBT: predictive lifecycle on boundary instants, at keeper level and through FinalizeBlock",
   "Block times exactly on, 1ns around and far beyond every start/end/release instant; each status after each block/message must equal the predicted one (one transition per auction per block); the same prediction is applied to empty blocks delivered through FinalizeBlock on a fresh application (block hook wiring). Exploration.", NOTE_A),
 "C09": T("K+D", "DESIGN.md 3.C09", "PBT with reference arithmetic for instalments and a once-only release schedule (histories + direct schedules up to 100 instalments)",
   "Instalment amounts, sums, release times, per-block payouts and released flags compared with exact integer arithmetic for generated schedules/proceeds/block times. Exploration."),
 "C10": T("K+A", "DESIGN.md 3.C10", "stateful PBT in a test binary that links the shipped binary's package graph: every MsgAddAllowedBidder (router and signed tx) must be rejected; ledger check of every stored bid",
   "The switch is a link-time/process fact: the check runs where the init graph equals the binary's. Generated signers/auctions/amounts; exploration of one (default) build configuration.", NOTE_A),
 "C11": T("K", "DESIGN.md 3.C11", "stateful PBT: per-modification necessary conditions, exact charge, append-only bid set",
   "Chains of modifications by owners and non-owners at +-1 unit boundaries; accepted => all documented conditions, charge == difference of required reservations; no bid ever disappears or changes otherwise. Exploration."),
 "C12": T("K", "DESIGN.md 3.C12", "stateful PBT: cancel accepted <=> (auctioneer and waiting), full escrow refund, permanence",
   "Cancel attempts by every account in every status around the start time with donations present. Exploration."),
 "C13": T("K", "DESIGN.md 3.C13", "stateful PBT: extension decision rule in exact rationals on recorded counts, end-time arithmetic, round bound",
   "Rates engineered to hit 1-cur/last exactly and +-1e-18; each end-time evaluation must follow the rule; appended end time exact; counts cross-checked against reference matching bounds. Bounded progress (settlement is reached when blocks keep coming) instead of liveness."),
 "C14": T("A", "DESIGN.md 3.C14", "differential testing: the same generated history executed 4x on fresh applications (and hook wiring 6x), transcripts compared",
   "No model: ordered events, tx results, app hashes and final dumps of repeated executions must be identical; Go randomises map iteration per iteration so repetition inside one process exposes order dependence with high probability per settlement with >=3 transfers. Exploration.", NOTE_A),
 "C15": T("K", "DESIGN.md 3.C15", "round-trip + lock-step differential: export -> validate -> import into an emptied store -> same suffix on both branches",
   "Export points drawn anywhere in generated histories (all statuses, extended rounds); validation, collection-by-collection equality and identical behaviour under a generated suffix. Exploration."),
 "C16": T("K", "DESIGN.md 3.C16", "stateful PBT: published flags/price vs observed transfers and reference clearing; query results vs model filter over all pages",
   "Histories through extended rounds with outbidding; every settlement and a grid of Get*/List* requests (filters x pagination modes) are compared with the snapshot. Two listing defects (auction_id ignored by two list queries) are known findings matched by exact signature; every other mismatch is reported. Exploration."),
 "C17": T("hooks", "DESIGN.md 3.C17", "fault enumeration + stateful PBT + differential: (hook method x failing position x occurrence x listener count) over a generated scenario and over generated histories with instrumented listeners; application-level vs keeper-level listener transcripts",
   "Each of the 10 hook methods x every failing position for 1..4 listeners is covered many times per run; call count/order/values/timing checked without fault, veto semantics with fault, both on a fixed scenario with generated parameters and on histories from the general operation generator (expected calls derived per operation). Wiring: the same listeners registered on the application's keeper (SetHooks) or supplied to the dependency-injection container must record the same calls when the log runs as signed transactions through FinalizeBlock. The grid is covered exhaustively in the quick tier (measured in classes); scenario parameters and histories are sampled.", NOTE_A),
 "C18": T("K+A", "DESIGN.md 3.C18", "model-based PBT: predictive acceptance predicate on perturbed messages + differential transaction-boundary check",
   "Valid-by-construction messages plus 1-2 perturbations at documented precondition boundaries; accept/reject must equal the conjunction of documented preconditions; rejected => full state/balance equality (router level and, differentially, at the signed-transaction boundary). Exploration.", NOTE_A),
 "C19": T("K", "DESIGN.md 3.C19", "stateful PBT: frame snapshots + immutable terms + metamorphic projection onto one auction + local metamorphic isolation probe",
   "2-5 concurrent auctions sharing participants: untouched auctions bit-identical around every operation; agreed terms constant; ids sequential; the history projected onto one auction must evolve identically modulo renaming; every bid by a bidder active elsewhere is re-executed on a branch with the bidder's records of other auctions deleted and must decide and act identically. Exploration."),
 "C20": T("CLI", "DESIGN.md 3.C20", "PBT over CLI argument vectors: typed args <-> generated tx round-trip, query request capture over loopback gRPC, real binary --help enumeration",
   "Commands are enumerated from the built command tree; generated argument vectors over full field domains must round-trip through --generate-only; query commands (and aliases) must send the typed values and display the answer; the default-built binary must start and serve --help for every command.; displayed answers must contain the stored values. One configuration (default build).",
   NOTE_K + " cosmos.Dec arguments are typed as 18-digit mantissas (client/v2 v2.0.0-beta.4 behaviour, assumption stated in DESIGN.md)."),
}
