HOOK_COMMITS = []
NOT_APPLICABLE = {}

NOTE_K = "Trusted: Go toolchain, rapid, Cosmos SDK (bank, distribution, baseapp, collections) as observation instrument, and the harness' own big-integer reference arithmetic. Exploration only: the property held on the generated histories within the stated bounds (<=60 ops quick / <=120 thorough, <=4-5 concurrent auctions, amounts <=1e33, prices 1e-18..1e6)."

TEXTS = {
    "C01": {
        "engine": "K",
        "design_ref": "DESIGN.md section 3.C01",
        "technique": "stateful property-based testing (rapid) with a shadow-ledger invariant checked after every operation",
        "level_text": "Randomised search: hundreds (quick) to tens of thousands (thorough) of generated multi-auction histories; after every operation every escrow balance in every denomination must EQUAL what the stored records owe plus recorded third-party donations. Not a proof; it samples interleavings, boundary block times and 18-decimal roundings that unit tests do not.",
        "level_note": NOTE_K,
    },
}
