#!/usr/bin/env python3
"""Regenerates MANIFEST.json from checks_config.py and manifest_texts.py."""
import json, os, sys
sys.path.insert(0, os.path.dirname(os.path.abspath(__file__)))
from checks_config import CHECKS
from manifest_texts import TEXTS, HOOK_COMMITS, NOT_APPLICABLE

props = [json.loads(l) for l in open(os.path.join(os.path.dirname(os.path.abspath(__file__)), "properties.jsonl"))]
checks = []
na = []
for p in props:
    pid = p["id"]
    if pid in CHECKS and pid in TEXTS:
        t = TEXTS[pid]
        checks.append({
            "property_id": pid,
            "quick_cmd": "./check %s quick" % pid,
            "thorough_cmd": "./check %s thorough" % pid,
            "evidence_file": "/verif/evidence/%s.json" % pid,
            "replay_cmd_template": "./check %s replay {path}" % pid,
            "engine": t["engine"],
            "level_claimed": {"category": CHECKS[pid]["level"], "text": t["level_text"], "design_ref": t["design_ref"]},
            "level_note": t["level_note"],
            "technique": t["technique"],
        })
    else:
        na.append({"property_id": pid, "reason": NOT_APPLICABLE.get(pid, "check not built yet in this session (work in progress); see DESIGN.md section 3 for the planned check")})
doc = {
    "version": 1,
    "setup_cmd": "./setup.sh",
    "hooks": {
        "guard": "verif",
        "enable": "no source hooks are needed: every check drives exported APIs of /repo from the external Go module /verif/harness (replace => /repo); the build tag 'verif' is reserved",
        "baseline_off_cmd": "cd /repo && GOFLAGS=-mod=mod GOPROXY=off GOSUMDB=off GOTOOLCHAIN=local go test -json -vet=off -count=1 -timeout 25m ./...",
        "source_commits": HOOK_COMMITS,
        "add_only": True,
    },
    "engines": [
        {"name": "K", "path": "/verif/harness/world", "serves_properties": sorted(k for k in CHECKS if CHECKS[k]["pkg"] == "world"), "kind_free_text": "rapid-generated operation histories executed through the message router / keeper API / BeginBlock on cache branches of one in-process app, judged by shadow-ledger and big-integer reference-model monitors"},
    ],
    "checks": checks,
    "not_applicable": na,
    "notes": "Technique family: property-based testing / fuzzing (pgregory.net/rapid v1.3.0). See DESIGN.md. Known findings: known_findings.json.",
}
json.dump(doc, open(os.path.join(os.path.dirname(os.path.abspath(__file__)), "MANIFEST.json"), "w"), indent=1)
print("MANIFEST.json: %d checks, %d not claimed" % (len(checks), len(na)))
