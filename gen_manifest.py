#!/usr/bin/env python3
"""Regenerates MANIFEST.json from checks_config.py and manifest_texts.py."""
import json, os, sys
sys.path.insert(0, os.path.dirname(os.path.abspath(__file__)))
from checks_config import CHECKS
from manifest_texts import TEXTS, HOOK_COMMITS, NOT_APPLICABLE

props = [json.loads(l) for l in open(os.path.join(os.path.dirname(os.path.abspath(__file__)), "properties.jsonl"))]
checks = []
na = []
for p in props:
    pid = p["id"]
    if pid in CHECKS and pid in TEXTS:
        t = TEXTS[pid]
        checks.append({
            "property_id": pid,
            "quick_cmd": "./check %s quick" % pid,
            "thorough_cmd": "./check %s thorough" % pid,
            "evidence_file": "/verif/evidence/%s.json" % pid,
            "replay_cmd_template": "./check %s replay {path}" % pid,
            "engine": t["engine"],
            "level_claimed": {"category": CHECKS[pid]["level"], "text": t["level_text"], "design_ref": t["design_ref"]},
            "level_note": t["level_note"],
            "technique": t["technique"],
        })
    else:
        na.append({"property_id": pid, "reason": NOT_APPLICABLE.get(pid, "check not built yet in this session (work in progress); see DESIGN.md section 3 for the planned check")})
doc = {
    "version": 1,
    "setup_cmd": "./setup.sh",
    "hooks": {
        "guard": "verif",
        "enable": "no source hooks are needed: every check drives exported APIs of /repo from the external Go module /verif/harness (replace => /repo); the build tag 'verif' is reserved",
        "baseline_off_cmd": "cd /repo && GOFLAGS=-mod=mod GOPROXY=off GOSUMDB=off GOTOOLCHAIN=local go test -json -vet=off -count=1 -timeout 25m ./...",
        "source_commits": HOOK_COMMITS,
        "add_only": True,
    },
    "engines": [
        {"name": "K", "path": "/verif/harness/world", "serves_properties": sorted(k for k in CHECKS if "K" in TEXTS[k]["engine"]), "kind_free_text": "rapid-generated operation histories executed through the message router / keeper API / BeginBlock on cache branches of one in-process app, judged by shadow-ledger and big-integer reference-model monitors"},
        {"name": "D", "path": "/verif/harness/world/engine_d.go", "serves_properties": ["C03", "C04", "C09"], "kind_free_text": "direct construction of order books / vesting schedules in the collections, function under test called directly, thousands of cases per second"},
        {"name": "A", "path": "/verif/harness/world/engine_a.go", "serves_properties": ["C07", "C08", "C10", "C14", "C18"], "kind_free_text": "fresh application per execution (IAVL app hash, deterministic genesis), signed transactions through FinalizeBlock + Commit"},
        {"name": "hooks", "path": "/verif/harness/world/c17.go", "serves_properties": ["C17"], "kind_free_text": "keeper built with instrumented listeners; fault plan (method, position, occurrence)"},
        {"name": "CLI", "path": "/verif/harness/cli", "serves_properties": ["C10", "C20"], "kind_free_text": "test binary linking cmd/fundraisingd/cmd: in-process root command, loopback gRPC recorder, real binary --help"},
    ],
    "checks": checks,
    "not_applicable": na,
    "notes": "Technique family: property-based testing / fuzzing (pgregory.net/rapid v1.3.0). See DESIGN.md. Known findings: known_findings.json.",
}
json.dump(doc, open(os.path.join(os.path.dirname(os.path.abspath(__file__)), "MANIFEST.json"), "w"), indent=1)
print("MANIFEST.json: %d checks, %d not claimed" % (len(checks), len(na)))
