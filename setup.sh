#!/bin/sh
# Offline setup: resolve the harness module from files on disk and warm the build cache.
set -e
cd "$(dirname "$0")"
export GOFLAGS=-mod=mod GOPROXY=off GOSUMDB=off GOTOOLCHAIN=local
./check build
