#!/usr/bin/env python3
"""Runs checks against seeded changes in scratch worktrees (never in /repo itself).

  tools/matrix.py [--jobs N] [--tier quick] [--props own|all|C01,C02] [--seed S] [mutant-dir-name ...]

For each selected /verif/seeded/<name>/patch.diff: git worktree add /tmp/mut/<name>, git apply, run
VERIF_REPO=/tmp/mut/<name> ./check <ID> <tier> for the chosen properties, remove the worktree.
Results are appended to /verif/.build/matrix.jsonl and summarised on stdout.
"""
import json, os, subprocess, sys, time, argparse, shutil
from concurrent.futures import ThreadPoolExecutor

VERIF = os.path.dirname(os.path.dirname(os.path.abspath(__file__)))
sys.path.insert(0, VERIF)
from checks_config import CHECKS

ap = argparse.ArgumentParser()
ap.add_argument("--jobs", type=int, default=5)
ap.add_argument("--tier", default="quick")
ap.add_argument("--props", default="own")
ap.add_argument("--seed", default="1")
ap.add_argument("--dir", default=os.path.join(VERIF, "seeded"))
ap.add_argument("--save-regressions", action="store_true")
ap.add_argument("names", nargs="*")
args = ap.parse_args()

names = args.names or sorted(d for d in os.listdir(args.dir) if os.path.exists(os.path.join(args.dir, d, "patch.diff")))
out_path = os.path.join(VERIF, ".build", "matrix.jsonl")
os.makedirs(os.path.dirname(out_path), exist_ok=True)


def props_for(name):
    own = name.split("-")[0]
    try:
        meta = json.load(open(os.path.join(args.dir, name, "meta.json")))
        own = meta.get("breaks_property") or meta.get("property") or own
    except Exception:
        pass
    if args.props == "own":
        return [own] if own in CHECKS else []
    if args.props == "all":
        return sorted(CHECKS)
    return [p for p in args.props.split(",") if p in CHECKS]


def run_one(name):
    wt = "/tmp/mut/" + name
    subprocess.run(["git", "-C", "/repo", "worktree", "remove", "--force", wt], stdout=subprocess.DEVNULL, stderr=subprocess.DEVNULL)
    shutil.rmtree(wt, ignore_errors=True)
    os.makedirs("/tmp/mut", exist_ok=True)
    r = subprocess.run(["git", "-C", "/repo", "worktree", "add", "-q", "--detach", wt, "HEAD"], stdout=subprocess.PIPE, stderr=subprocess.STDOUT, text=True)
    if r.returncode != 0:
        return [(name, "-", "worktree-failed", r.stdout)]
    res = []
    try:
        r = subprocess.run(["git", "-C", wt, "apply", os.path.join(args.dir, name, "patch.diff")], stdout=subprocess.PIPE, stderr=subprocess.STDOUT, text=True)
        if r.returncode != 0:
            return [(name, "-", "apply-failed", r.stdout)]
        for pid in props_for(name):
            t0 = time.time()
            env = dict(os.environ, VERIF_REPO=wt, VERIF_SEED=args.seed, VERIF_JOBS="2")
            p = subprocess.run([os.path.join(VERIF, "check"), pid, args.tier], cwd=VERIF, env=env, stdout=subprocess.PIPE, stderr=subprocess.STDOUT, text=True)
            verdict = {0: "pass", 1: "VIOLATION", 2: "inconclusive"}.get(p.returncode, "exit%d" % p.returncode)
            sig = ""
            for line in p.stdout.splitlines():
                if "VIOLATION C" in line and "[" in line:
                    sig = line[line.find("["):line.find("]") + 1]
                    break
            res.append((name, pid, verdict, sig, round(time.time() - t0, 1)))
            if verdict == "VIOLATION" and args.save_regressions:
                for line in p.stdout.splitlines():
                    if line.startswith("VIOLATION property=") and "replay=" in line:
                        rp = line.split("replay=", 1)[1].strip()
                        if rp and os.path.exists(rp) and "/regressions/" not in rp:
                            dst = os.path.join(VERIF, "regressions", pid)
                            os.makedirs(dst, exist_ok=True)
                            shutil.copyfile(rp, os.path.join(dst, name + ".json"))
                        break
            with open(out_path, "a") as f:
                f.write(json.dumps({"mutant": name, "property": pid, "tier": args.tier, "seed": args.seed, "verdict": verdict, "signature": sig, "wall_s": round(time.time() - t0, 1), "tail": p.stdout[-1500:] if verdict != "pass" else ""}) + "\n")
    finally:
        subprocess.run(["git", "-C", "/repo", "worktree", "remove", "--force", wt], stdout=subprocess.DEVNULL, stderr=subprocess.DEVNULL)
        shutil.rmtree(wt, ignore_errors=True)
        # remove this worktree's build output
        import hashlib
        tag = hashlib.sha1(wt.encode()).hexdigest()[:8]
        for fn in os.listdir(os.path.join(VERIF, ".build")):
            if tag in fn:
                pth = os.path.join(VERIF, ".build", fn)
                if os.path.isdir(pth):
                    shutil.rmtree(pth, ignore_errors=True)
                else:
                    os.remove(pth)
    return res


with ThreadPoolExecutor(max_workers=args.jobs) as ex:
    for res in ex.map(run_one, names):
        for r in res:
            print(" ".join(str(x) for x in r), flush=True)
subprocess.run(["git", "-C", "/repo", "worktree", "prune"])
