#!/bin/bash
# usage: tools/run_some.sh <tier> <ID>...   -> runs the given checks in that order, one summary line each
cd "$(dirname "$0")/.."
tier=$1; shift
mkdir -p .build
for id in "$@"; do
  start=$(date +%s)
  ./check $id $tier > .build/runall.$id.$tier.log 2>&1
  rc=$?
  echo "$id $tier exit=$rc $(( $(date +%s) - start ))s $(grep -c '^KNOWN-FINDING' .build/runall.$id.$tier.log) known-lines; $(grep -E '^C[0-9]+ (quick|thorough):' .build/runall.$id.$tier.log)"
done
