#!/bin/bash
# How the generated code of fix commit a46a872 (F15) was produced offline. Not used by any check.
# buf and the protoc plugins are built from the module cache (they are pinned in /repo/tools/tools.go);
# the BSR dependencies of proto/buf.yaml are replaced by local copies of the same proto files taken
# from the module cache. With the unedited protos this reproduces the committed *.pb.go byte for byte,
# and the *.pulsar.go files up to the go import paths that buf's managed mode derives from BSR module
# names (mapped back by sed below) — verified before the edit was made.
set -e
export GOFLAGS=-mod=mod GOPROXY=off GOSUMDB=off GOTOOLCHAIN=local
BIN=/tmp/protobin; W=/tmp/pw; MOD=$(go env GOMODCACHE)
mkdir -p $BIN && cd /repo
for t in github.com/bufbuild/buf/cmd/buf github.com/cosmos/cosmos-proto/cmd/protoc-gen-go-pulsar github.com/cosmos/gogoproto/protoc-gen-gocosmos \
         github.com/grpc-ecosystem/grpc-gateway/protoc-gen-grpc-gateway google.golang.org/grpc/cmd/protoc-gen-go-grpc; do go build -o $BIN/ $t; done
rm -rf $W && mkdir -p $W/{sdk,cproto,gogo/gogoproto,gapis/google/api,home} && cd $W
cp -r /repo/proto fr && chmod -R u+w fr && rm -f fr/buf.lock && echo "version: v1" > fr/buf.yaml
cp -r $MOD/github.com/cosmos/cosmos-sdk@v0.50.8/proto/{amino,cosmos,tendermint} sdk/
cp -r $MOD/github.com/cosmos/cosmos-proto@v1.0.0-beta.5/proto/cosmos_proto cproto/
cp $MOD/github.com/cosmos/gogoproto@v1.5.0/gogoproto/gogo.proto gogo/gogoproto/
cp $MOD/github.com/grpc-ecosystem/grpc-gateway@v1.16.0/third_party/googleapis/google/api/{annotations,http}.proto gapis/google/api/
chmod -R u+w . ; for d in sdk cproto gogo gapis; do echo "version: v1" > $d/buf.yaml; done
printf 'version: v1\ndirectories:\n  - fr\n  - sdk\n  - cproto\n  - gogo\n  - gapis\n' > buf.work.yaml
export PATH=$BIN:$PATH HOME=$W/home BUF_CACHE_DIR=$W/cache
mkdir -p out/gogo out/pulsar
buf generate fr --template fr/buf.gen.gogo.yaml --output out/gogo
buf generate fr --template fr/buf.gen.pulsar.yaml --output out/pulsar 2>/dev/null
for f in $(find out/pulsar -name '*.pulsar.go'); do
  sed -i -e 's#"github.com/tendermint/fundraising/api/amino"#"cosmossdk.io/api/amino"#' \
         -e 's#"github.com/tendermint/fundraising/api/cosmos/#"cosmossdk.io/api/cosmos/#' \
         -e 's#"github.com/tendermint/fundraising/api/cosmos_proto"#"github.com/cosmos/cosmos-proto"#' \
         -e 's#"github.com/tendermint/fundraising/api/gogoproto"#"github.com/cosmos/gogoproto/gogoproto"#' \
         -e 's#"github.com/tendermint/fundraising/api/google/api"#"google.golang.org/genproto/googleapis/api/annotations"#' $f
  gofmt -w $f
done
echo "generated files are under $W/out; copy out/gogo/github.com/tendermint/fundraising/x/fundraising/types/*.go and out/pulsar/api/** into /repo"
