#!/bin/bash
# usage: tools/run_all.sh quick|thorough  -> runs every check, prints a summary line each
cd "$(dirname "$0")/.."
tier=${1:-quick}
mkdir -p .build
for i in $(seq -w 1 20); do
  id=C$i
  start=$(date +%s)
  ./check $id $tier > .build/runall.$id.$tier.log 2>&1
  rc=$?
  echo "$id $tier exit=$rc $(( $(date +%s) - start ))s $(grep -c '^KNOWN-FINDING' .build/runall.$id.$tier.log) known-lines; $(grep -E '^C[0-9]+ (quick|thorough):' .build/runall.$id.$tier.log)"
done
