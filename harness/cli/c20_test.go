package cli

import (
	"bytes"
	"context"
	"encoding/json"
	"fmt"
	"math/big"
	"net"
	"os"
	"os/exec"
	"path/filepath"
	"regexp"
	"sort"
	"strings"
	"sync"
	"testing"
	"time"

	"cosmossdk.io/math"
	"github.com/cosmos/cosmos-sdk/codec"
	svrcmd "github.com/cosmos/cosmos-sdk/server/cmd"
	sdk "github.com/cosmos/cosmos-sdk/types"
	"github.com/cosmos/cosmos-sdk/types/query"
	authtx "github.com/cosmos/cosmos-sdk/x/auth/tx"
	"github.com/spf13/cobra"
	"google.golang.org/grpc"
	"pgregory.net/rapid"

	"github.com/tendermint/fundraising/app"
	fcmd "github.com/tendermint/fundraising/cmd/fundraisingd/cmd"
	"github.com/tendermint/fundraising/x/fundraising/keeper"
	"github.com/tendermint/fundraising/x/fundraising/types"
	"verifharness/world"
)

// C20 — the shipped node binary starts and wires every message and query correctly.

const prop = "C20"

var (
	homeOnce sync.Once
	homeDir  string
	runMu    sync.Mutex
)

func cliHome() string {
	homeOnce.Do(func() {
		base := os.Getenv("VERIF_BUILD")
		if base == "" {
			base = "/verif/.build"
		}
		homeDir = filepath.Join(base, "clihome", fmt.Sprintf("p%d", os.Getpid()))
		_ = os.MkdirAll(homeDir, 0o755)
	})
	return homeDir
}

// newRoot builds the root command exactly as main() does (a fresh one per execution: cobra
// flags keep state).
func newRoot() (root *cobra.Command, err error) {
	defer func() {
		if r := recover(); r != nil {
			err = fmt.Errorf("panic while building the root command: %v", r)
		}
	}()
	app.DefaultNodeHome = cliHome()
	return fcmd.NewRootCmd(), nil
}

// runCLI executes the root command in-process.
func runCLI(args ...string) (string, error) {
	runMu.Lock()
	defer runMu.Unlock()
	root, err := newRoot()
	if err != nil {
		return "", err
	}
	var out bytes.Buffer
	func() {
		defer func() {
			if r := recover(); r != nil {
				err = fmt.Errorf("panic: %v", r)
			}
		}()
		root.SetOut(&out)
		root.SetErr(&out)
		root.SetArgs(append(args, "--home", cliHome()))
		err = svrcmd.Execute(root, "", cliHome())
	}()
	return out.String(), err
}

type cmdInfo struct {
	Group   string // tx | query
	Name    string
	Aliases []string
	Use     string
	Holders []string // positional placeholders of the Use string
}

var holderRe = regexp.MustCompile(`\[([a-z0-9-]+)\]`)

func moduleCommands() ([]cmdInfo, error) {
	root, err := newRoot()
	if err != nil {
		return nil, err
	}
	var out []cmdInfo
	for _, g := range []string{"tx", "query"} {
		c, _, err := root.Find([]string{g, "fundraising"})
		if err != nil || c == nil || c.Name() != "fundraising" {
			return nil, fmt.Errorf("the binary has no '%s fundraising' command: %v", g, err)
		}
		for _, sc := range c.Commands() {
			if sc.Name() == "help" {
				continue
			}
			ci := cmdInfo{Group: g, Name: sc.Name(), Aliases: sc.Aliases, Use: sc.Use}
			for _, m := range holderRe.FindAllStringSubmatch(sc.Use, -1) {
				ci.Holders = append(ci.Holders, m[1])
			}
			out = append(out, ci)
		}
	}
	return out, nil
}

// ---- typed values -----------------------------------------------------------------------------

func uniI(t *rapid.T, label string, n int) int { return rapid.IntRange(0, n-1).Draw(t, label) }

func genDecMantissa(t *rapid.T, label string) *big.Int {
	switch uniI(t, label+"-class", 4) {
	case 0:
		return new(big.Int).Mul(big.NewInt(int64(rapid.IntRange(1, 9).Draw(t, label+"-int"))), world.E18)
	case 1:
		return big.NewInt(rapid.Int64Range(1, 999_999_999_999_999_999).Draw(t, label+"-frac"))
	case 2:
		n := new(big.Int).Mul(big.NewInt(int64(rapid.IntRange(1, 20).Draw(t, label+"-n"))), world.E18)
		return n.Quo(n, big.NewInt(int64(rapid.SampledFrom([]int{3, 7, 9}).Draw(t, label+"-d"))))
	default:
		return new(big.Int).Add(world.E18, big.NewInt(int64(rapid.IntRange(-1, 1).Draw(t, label+"-eps"))))
	}
}

func genU64(t *rapid.T, label string) uint64 {
	switch uniI(t, label+"-class", 3) {
	case 0:
		return uint64(rapid.IntRange(0, 5).Draw(t, label+"-small"))
	case 1:
		return rapid.Uint64().Draw(t, label+"-any")
	default:
		return ^uint64(0) - uint64(rapid.IntRange(0, 2).Draw(t, label+"-max"))
	}
}

func genCoin(t *rapid.T, label string) sdk.Coin {
	denom := rapid.SampledFrom([]string{"sella", "paya", "stake", "ibc/ABCDEF0123", "u1x"}).Draw(t, label+"-denom")
	var amt *big.Int
	if uniI(t, label+"-big", 4) == 0 {
		amt = new(big.Int).Mul(big.NewInt(rapid.Int64Range(1, 999).Draw(t, label+"-mant")), new(big.Int).Exp(big.NewInt(10), big.NewInt(int64(rapid.IntRange(10, 30).Draw(t, label+"-exp"))), nil))
	} else {
		amt = big.NewInt(rapid.Int64Range(1, 1_000_000_000).Draw(t, label+"-amt"))
	}
	return sdk.NewCoin(denom, math.NewIntFromBigInt(amt))
}

func genTime(t *rapid.T, label string) time.Time {
	base := world.T0.Add(time.Duration(rapid.IntRange(0, 100000).Draw(t, label+"-h")) * time.Hour)
	if uniI(t, label+"-ns", 2) == 0 {
		base = base.Add(time.Duration(rapid.IntRange(1, 999_999_999).Draw(t, label+"-nanos")))
	}
	return base.UTC()
}

var bidTypeSpellings = map[string]types.BidType{"fixed-price": types.BidTypeFixedPrice, "batch-worth": types.BidTypeBatchWorth, "batch-many": types.BidTypeBatchMany}

// txVector is one generated argument vector with the message it must produce.
type txVector struct {
	Args   []string
	Want   sdk.Msg
	Signer string
}

// buildTxVector generates typed values for the placeholders of a tx command and the message the
// user means by them: the i-th typed argument is the value of the field its placeholder names.
func buildTxVector(t *rapid.T, ci cmdInfo) (txVector, error) {
	v := txVector{Signer: world.Addrs[uniI(t, "from", world.NumAccounts)].String()}
	fixed := &types.MsgCreateFixedPriceAuction{Auctioneer: v.Signer, VestingSchedules: []types.VestingSchedule{}}
	batch := &types.MsgCreateBatchAuction{Auctioneer: v.Signer, VestingSchedules: []types.VestingSchedule{}}
	cancel := &types.MsgCancelAuction{Auctioneer: v.Signer}
	place := &types.MsgPlaceBid{Bidder: v.Signer}
	modify := &types.MsgModifyBid{Bidder: v.Signer}
	for _, hname := range ci.Holders {
		switch hname {
		case "start-price", "min-bid-price", "extended-round-rate", "price":
			m := genDecMantissa(t, hname)
			v.Args = append(v.Args, m.String())
			d := world.DecFromM(m)
			switch hname {
			case "start-price":
				fixed.StartPrice, batch.StartPrice = d, d
			case "min-bid-price":
				batch.MinBidPrice = d
			case "extended-round-rate":
				batch.ExtendedRoundRate = d
			case "price":
				place.Price, modify.Price = d, d
			}
		case "selling-coin", "coin":
			c := genCoin(t, hname)
			v.Args = append(v.Args, c.String())
			if hname == "selling-coin" {
				fixed.SellingCoin, batch.SellingCoin = c, c
			} else {
				place.Coin, modify.Coin = c, c
			}
		case "paying-coin-denom":
			d := rapid.SampledFrom([]string{"paya", "payb", "stake", "ibc/00FF"}).Draw(t, "pay-denom")
			v.Args = append(v.Args, d)
			fixed.PayingCoinDenom, batch.PayingCoinDenom = d, d
		case "vesting-schedules":
			rel := genTime(t, "release")
			w := genDecMantissa(t, "weight")
			js, _ := json.Marshal(map[string]string{"release_time": rel.Format(time.RFC3339Nano), "weight": w.String()})
			v.Args = append(v.Args, string(js))
			vs := []types.VestingSchedule{{ReleaseTime: rel, Weight: world.DecFromM(w)}}
			fixed.VestingSchedules, batch.VestingSchedules = vs, vs
		case "max-extended-round":
			r := uint32(rapid.Uint32().Draw(t, "rounds"))
			v.Args = append(v.Args, fmt.Sprint(r))
			batch.MaxExtendedRound = r
		case "start-time", "end-time":
			tm := genTime(t, hname)
			v.Args = append(v.Args, tm.Format(time.RFC3339Nano))
			if hname == "start-time" {
				fixed.StartTime, batch.StartTime = tm, tm
			} else {
				fixed.EndTime, batch.EndTime = tm, tm
			}
		case "auction-id":
			id := genU64(t, hname)
			v.Args = append(v.Args, fmt.Sprint(id))
			cancel.AuctionId, place.AuctionId, modify.AuctionId = id, id, id
		case "bid-id":
			id := genU64(t, hname)
			v.Args = append(v.Args, fmt.Sprint(id))
			modify.BidId = id
		case "bid-type":
			var names []string
			for n := range bidTypeSpellings {
				names = append(names, n)
			}
			sort.Strings(names)
			n := names[uniI(t, "bid-type", len(names))]
			v.Args = append(v.Args, n)
			place.BidType = bidTypeSpellings[n]
		default:
			return v, fmt.Errorf("command %q advertises a positional argument [%s] that is not a field of any fundraising message", ci.Use, hname)
		}
	}
	switch ci.Name {
	case "create-fixed-price-auction":
		v.Want = fixed
	case "create-batch-auction":
		v.Want = batch
	case "cancel-auction":
		v.Want = cancel
	case "place-bid":
		v.Want = place
	case "modify-bid":
		v.Want = modify
	default:
		return v, fmt.Errorf("no expectation for tx command %q", ci.Name)
	}
	return v, nil
}

func canonMsg(cdc codec.Codec, m sdk.Msg) string {
	bz, err := cdc.MarshalInterfaceJSON(m)
	if err != nil {
		return "ERR " + err.Error()
	}
	return string(bz)
}

// ---- recording gRPC endpoint -------------------------------------------------------------------

type recorded struct {
	Method string
	Req    any
}

type endpoint struct {
	addr string
	mu   sync.Mutex
	recs []recorded
	stop func()
}

func (e *endpoint) take() []recorded {
	e.mu.Lock()
	defer e.mu.Unlock()
	r := e.recs
	e.recs = nil
	return r
}

func serveQueries(b *world.Base, ctx sdk.Context) (*endpoint, error) {
	lis, err := net.Listen("tcp", "127.0.0.1:0")
	if err != nil {
		return nil, err
	}
	e := &endpoint{addr: lis.Addr().String()}
	srv := grpc.NewServer(
		grpc.ForceServerCodec(codec.NewProtoCodec(b.App.AppCodec().InterfaceRegistry()).GRPCCodec()),
		grpc.UnaryInterceptor(func(_ context.Context, req interface{}, info *grpc.UnaryServerInfo, handler grpc.UnaryHandler) (interface{}, error) {
			e.mu.Lock()
			e.recs = append(e.recs, recorded{Method: info.FullMethod, Req: req})
			e.mu.Unlock()
			return handler(ctx, req)
		}),
	)
	types.RegisterQueryServer(srv, keeper.NewQueryServerImpl(b.K))
	go func() { _ = srv.Serve(lis) }()
	e.stop = srv.Stop
	return e, nil
}

// seedState builds a state with an auction of each type, bids, allow-list entries and instalments.
func seedState(b *world.Base) (sdk.Context, *world.Snap) {
	w := world.NewWorld(b)
	h := world.NewHistory(w)
	T := world.T0
	ops := []world.Op{
		{Kind: world.OpBlock, Time: T.Add(time.Second)},
		{Kind: world.OpCreateFixed, Signer: 0, StartPrice: "0.5", SellDenom: "sella", SellAmount: "1000", PayDenom: "paya", Start: T, End: T.Add(time.Hour),
			Schedules: []world.Sched{{Release: T.Add(2 * time.Hour), Weight: "0.5"}, {Release: T.Add(3 * time.Hour), Weight: "0.5"}}},
		{Kind: world.OpCreateBatch, Signer: 1, StartPrice: "1", MinPrice: "0.1", Rate: "0.2", SellDenom: "sellb", SellAmount: "500", PayDenom: "payb", MaxRounds: 1, Start: T, End: T.Add(5 * time.Hour)},
		{Kind: world.OpAddAllowed, Auction: 0, Bidder: 3, MaxBid: "600"},
		{Kind: world.OpAddAllowed, Auction: 0, Bidder: 4, MaxBid: "600"},
		{Kind: world.OpAddAllowed, Auction: 1, Bidder: 3, MaxBid: "500"},
		{Kind: world.OpPlaceBid, Signer: 3, Auction: 0, BidType: 1, Price: "0.5", CoinDenom: "sella", CoinAmount: "100"},
		{Kind: world.OpPlaceBid, Signer: 4, Auction: 0, BidType: 1, Price: "0.5", CoinDenom: "paya", CoinAmount: "77"},
		{Kind: world.OpPlaceBid, Signer: 3, Auction: 1, BidType: 3, Price: "0.7", CoinDenom: "sellb", CoinAmount: "10"},
		{Kind: world.OpPlaceBid, Signer: 3, Auction: 1, BidType: 2, Price: "0.9", CoinDenom: "payb", CoinAmount: "50"},
		{Kind: world.OpBlock, Time: T.Add(time.Hour)},     // fixed price auction settles -> vesting
		{Kind: world.OpBlock, Time: T.Add(2 * time.Hour)}, // first instalment released
	}
	// more bids than one page of a listing holds (the default page size is 100)
	for i := 0; i < 115; i++ {
		ops = append(ops, world.Op{Kind: world.OpPlaceBid, Signer: 3, Auction: 1, BidType: 3, Price: "0.7", CoinDenom: "sellb", CoinAmount: "1"})
	}
	for _, o := range ops {
		st, _ := h.Exec(o)
		if !st.Res.OK {
			panic(fmt.Sprintf("seed state: %s failed: %s", o.String(), st.Res.Err))
		}
	}
	return w.Ctx, h.Steps[len(h.Steps)-1].Post
}

// ---- the check ---------------------------------------------------------------------------------

func report(col *world.Collector, t interface{ Fatalf(string, ...any) }, sig, format string, args ...any) {
	msg := fmt.Sprintf(format, args...)
	if f, ok := world.IsKnown(prop, sig); ok {
		col.Known(f)
		return
	}
	world.WriteReplay(os.Getenv("VERIF_REPLAY_OUT"), world.Replay{Property: prop, Engine: "CLI", Signature: sig, Message: msg})
	col.AddViolation()
	t.Fatalf("VIOLATION %s [%s]\n%s", prop, sig, msg)
}

func TestC20(t *testing.T) {
	col := world.GlobalCollector(prop)
	col.AddRule("CLI engine. In-process (test binary linking cmd/fundraisingd/cmd, the same init graph as main): the root command must build without panic; every command registered under 'tx fundraising' and 'query fundraising' is enumerated from the command tree (not hard-coded) and its --help must succeed; the Msg/Query services of the module are compared with what the commands can reach. Tx commands: rapid-generated argument vectors over the field domains (full-range uint64 ids, uint32 rounds, every enum spelling, 18-decimal values typed as mantissas, coins incl. ibc/ denoms and 1e33 amounts, RFC3339Nano times, JSON schedule) run with --generate-only --offline; the printed JSON is decoded with the app's TxConfig and must equal the message built from the typed values, where the i-th typed argument is the field its [placeholder] in the usage string names, and the signer is --from. Query commands and their aliases: run against a loopback gRPC endpoint serving the module's real query server over a generated state; the request that arrives must carry the typed positional arguments and flags, the answer must be displayed (exit 0, valid JSON). Real binary (go build ./cmd/fundraisingd, default flags): --help of the root, of both groups and of every module command must exit 0. Non-trivial = a command with >=2 positional arguments bound to distinct fields; distinct = distinct (command, argument vector).")
	b := world.SharedBase()
	cdc := b.App.AppCodec()
	txCfg := authtx.NewTxConfig(cdc, authtx.DefaultSignModes)

	if _, err := newRoot(); err != nil {
		report(col, t, "C20/root-command", "%v", err)
		return
	}
	cmds, err := moduleCommands()
	if err != nil {
		report(col, t, "C20/module-commands", "%v", err)
		return
	}
	// --help of every command
	for _, ci := range cmds {
		for _, name := range append([]string{ci.Name}, ci.Aliases...) {
			out, err := runCLI(ci.Group, "fundraising", name, "--help")
			if err != nil || !strings.Contains(out, "Usage:") {
				report(col, t, "C20/help/"+ci.Group+"/"+name, "'%s fundraising %s --help' failed: %v\n%s", ci.Group, name, err, out)
			}
			col.Case(map[string]string{"help": ci.Group + " " + name}, false, map[string]int{"c20:help-ok": 1}, nil)
		}
	}
	// every message / query of the module is reachable
	wantTx := map[string]bool{"create-fixed-price-auction": true, "create-batch-auction": true, "cancel-auction": true, "place-bid": true, "modify-bid": true}
	haveCmd := map[string]bool{}
	for _, ci := range cmds {
		haveCmd[ci.Group+"/"+ci.Name] = true
	}
	for _, n := range []string{"tx/create-fixed-price-auction", "tx/create-batch-auction", "tx/cancel-auction", "tx/place-bid", "tx/modify-bid",
		"query/params", "query/list-auction", "query/get-auction", "query/list-bid", "query/get-bid", "query/list-allowed-bidder", "query/get-allowed-bidder", "query/list-vesting-queue"} {
		if !haveCmd[n] {
			report(col, t, "C20/missing-command/"+n, "the binary registers no command %s for the module", n)
		}
	}

	// the one message without a command (authority-gated MsgUpdateParams) is reachable through a
	// governance proposal only if the application wires the gov module account as the authority
	if got := b.K.GetAuthority(); got != b.GovAddr {
		report(col, t, "C20/update-params-authority", "the application wires %s as the authority of MsgUpdateParams; governance proposals are executed by the gov module account %s, so the message cannot be executed", got, b.GovAddr)
	}

	// every command needs the service behind it: the application must route each message of the
	// module to a handler and each query method to the query server
	for _, m := range []sdk.Msg{&types.MsgCreateFixedPriceAuction{}, &types.MsgCreateBatchAuction{}, &types.MsgCancelAuction{}, &types.MsgPlaceBid{}, &types.MsgModifyBid{}, &types.MsgAddAllowedBidder{}, &types.MsgUpdateParams{}} {
		if b.App.MsgServiceRouter().Handler(m) == nil {
			report(col, t, "C20/service-not-registered"+sdk.MsgTypeURL(m), "the application has no handler for %s: the command that sends it can never succeed", sdk.MsgTypeURL(m))
		}
	}
	for _, q := range []string{"Params", "ListAuction", "GetAuction", "ListBid", "GetBid", "ListAllowedBidder", "GetAllowedBidder", "ListVestingQueue"} {
		path := "/fundraising.fundraising.v1.Query/" + q
		if b.App.GRPCQueryRouter().Route(path) == nil {
			report(col, t, "C20/service-not-registered"+path, "the application does not route the query %s: the command that sends it can never be answered", path)
		}
	}
	if t.Failed() {
		return
	}

	// ---- tx round trips ----
	rapid.Check(t, func(rt *rapid.T) {
		var txCmds []cmdInfo
		for _, ci := range cmds {
			if ci.Group == "tx" && len(ci.Holders) > 0 && wantTx[ci.Name] {
				txCmds = append(txCmds, ci)
			}
		}
		ci := txCmds[uniI(rt, "tx-cmd", len(txCmds))]
		v, err := buildTxVector(rt, ci)
		if err != nil {
			report(col, rt, "C20/tx-usage/"+ci.Name, "%v", err)
			return
		}
		args := append([]string{"tx", "fundraising", ci.Name}, v.Args...)
		args = append(args, "--from", v.Signer, "--generate-only", "--offline", "--account-number", "1", "--sequence", "0", "--chain-id", "", "--output", "json")
		out, err := runCLI(args...)
		if err != nil {
			report(col, rt, "C20/tx-command-failed/"+ci.Name, "%s failed: %v\n%s", strings.Join(args, " "), err, out)
			return
		}
		tx, err := txCfg.TxJSONDecoder()([]byte(strings.TrimSpace(out)))
		if err != nil || len(tx.GetMsgs()) != 1 {
			report(col, rt, "C20/tx-output/"+ci.Name, "%s printed something that is not a one-message transaction: %v\n%s", strings.Join(args, " "), err, out)
			return
		}
		got, want := canonMsg(cdc, tx.GetMsgs()[0]), canonMsg(cdc, v.Want)
		if got != want {
			report(col, rt, "C20/tx-binding/"+ci.Name, "usage: %s\ntyped: %s\n sent: %s\nmeant: %s", ci.Use, strings.Join(v.Args, " "), got, want)
			return
		}
		col.Case(map[string]any{"cmd": ci.Name, "args": v.Args}, len(ci.Holders) >= 2, map[string]int{"c20:tx-roundtrip/" + ci.Name: 1}, map[string]any{"command": strings.Join(args, " "), "sent": got})
	})
	if t.Failed() {
		return
	}

	// ---- query commands against a recording endpoint ----
	ctx, snap := seedState(b)
	ep, err := serveQueries(b, ctx)
	if err != nil {
		t.Fatalf("cannot serve gRPC on loopback: %v", err)
	}
	defer ep.stop()
	runQuery := func(args ...string) (string, []recorded, error) {
		full := append([]string{"query", "fundraising"}, args...)
		full = append(full, "--grpc-addr", ep.addr, "--grpc-insecure", "--output", "json")
		ep.take()
		out, err := runCLI(full...)
		return out, ep.take(), err
	}
	checkDisplay := func(rt interface{ Fatalf(string, ...any) }, name string, out string, err error, must ...string) bool {
		if err != nil {
			report(col, rt, "C20/display/"+name, "the answer of 'query fundraising %s' could not be displayed: %v\n%s", name, err, out)
			return false
		}
		var js any
		if jerr := json.Unmarshal([]byte(strings.TrimSpace(out)), &js); jerr != nil {
			report(col, rt, "C20/display/"+name, "'query fundraising %s --output json' printed invalid JSON: %v\n%s", name, jerr, out)
			return false
		}
		for _, m := range must {
			if !strings.Contains(out, m) {
				report(col, rt, "C20/display-content/"+name, "the output of 'query fundraising %s' does not contain %q:\n%s", name, m, out)
				return false
			}
		}
		return true
	}
	bidder3 := world.Addrs[3].String()
	// deterministic pass: every query command once, on objects that exist
	for _, fixed := range [][]string{{"params"}, {"get-auction", "0"}, {"get-bid", "0", "1"}, {"get-allowed-bidder", "0", bidder3}, {"list-auction"},
		{"list-bid", "--auction-id", "0"}, {"list-allowed-bidder", "--auction-id", "0"}, {"list-vesting-queue", "--auction-id", "0"}} {
		if !haveCmd["query/"+fixed[0]] {
			continue
		}
		out, recs, err := runQuery(fixed...)
		if len(recs) != 1 {
			report(col, t, "C20/query-command-failed/"+fixed[0], "query fundraising %s sent %d requests: %v\n%s", strings.Join(fixed, " "), len(recs), err, out)
			continue
		}
		checkDisplay(t, fixed[0], out, err)
		col.Case(map[string]any{"cmd": fixed[0], "args": fixed[1:], "pass": "deterministic"}, false, map[string]int{"c20:query-deterministic/" + fixed[0]: 1}, nil)
	}
	if t.Failed() {
		return
	}
	// a listing longer than one page: following next_key (no explicit limit) must show every stored
	// record exactly once
	if haveCmd["query/list-bid"] {
		seen := map[string]int{}
		key, pages := "", 0
		for ; pages < 12; pages++ {
			args := []string{"list-bid", "--auction-id", "1"}
			if key != "" {
				args = append(args, "--page-key", key)
			}
			out, _, err := runQuery(args...)
			if err != nil {
				report(col, t, "C20/pagination/list-bid", "query fundraising %s failed: %v\n%s", strings.Join(args, " "), err, out)
				break
			}
			var page struct {
				Bid []struct {
					ID string `json:"id"`
				} `json:"bid"`
				Pagination struct {
					NextKey string `json:"next_key"`
				} `json:"pagination"`
			}
			if err := json.Unmarshal([]byte(out), &page); err != nil {
				report(col, t, "C20/pagination/list-bid", "the output of query fundraising %s is not the expected JSON: %v\n%s", strings.Join(args, " "), err, out)
				break
			}
			for _, b := range page.Bid {
				seen[b.ID]++
			}
			key = page.Pagination.NextKey
			if key == "" {
				break
			}
		}
		want := snap.BidsOf(1)
		bad := ""
		for _, b := range want {
			if seen[fmt.Sprint(b.ID)] != 1 {
				bad = fmt.Sprintf("bid %d of auction 1 was shown %d times", b.ID, seen[fmt.Sprint(b.ID)])
				break
			}
		}
		if bad != "" || len(seen) != len(want) {
			report(col, t, "C20/pagination/list-bid", "following next_key through 'query fundraising list-bid --auction-id 1' (%d stored bids, %d pages fetched) showed %d distinct bids; %s", len(want), pages+1, len(seen), bad)
		}
		col.Case(map[string]any{"cmd": "list-bid", "pass": "pagination-walk"}, true, map[string]int{"c20:pagination-walk/list-bid": 1}, map[string]any{"command": "query fundraising list-bid --auction-id 1 [--page-key <next_key>]", "stored": len(want), "pages": pages + 1})
	}
	if t.Failed() {
		return
	}
	rapid.Check(t, func(rt *rapid.T) {
		var qCmds []cmdInfo
		for _, ci := range cmds {
			if ci.Group == "query" {
				qCmds = append(qCmds, ci)
			}
		}
		ci := qCmds[uniI(rt, "query-cmd", len(qCmds))]
		names := append([]string{ci.Name}, ci.Aliases...)
		name := names[uniI(rt, "alias", len(names))]
		existing := uniI(rt, "existing", 3) != 0
		var args []string
		aid := uint64(uniI(rt, "q-auction", 2))
		if !existing {
			aid = genU64(rt, "q-auction-any")
		}
		bidID := uint64(1 + uniI(rt, "q-bid", 2))
		wantMethod := ""
		var checkReq func(req any) string
		var mustShow []string
		// what a command does is documented by the name the user types: show-<x> is get-<x>
		canon := name
		if strings.HasPrefix(canon, "show-") {
			canon = "get-" + strings.TrimPrefix(canon, "show-")
		}
		switch canon {
		case "params":
			wantMethod = "Params"
			checkReq = func(any) string { return "" }
			mustShow = []string{"extended_period"}
		case "get-auction":
			wantMethod = "GetAuction"
			args = []string{fmt.Sprint(aid)}
			if a := snap.Auction(aid); a != nil {
				mustShow = []string{a.Auctioneer, a.SellingAddr, `"` + a.SellAmt.String() + `"`, a.SellDenom, a.PayDenom, a.Status.String()}
			}
			checkReq = func(r any) string {
				q, ok := r.(*types.QueryGetAuctionRequest)
				if !ok || q.AuctionId != aid {
					return fmt.Sprintf("%#v", r)
				}
				return ""
			}
		case "get-bid":
			wantMethod = "GetBid"
			args = []string{fmt.Sprint(aid), fmt.Sprint(bidID)}
			if b := snap.Bid(aid, bidID); b != nil {
				mustShow = []string{b.Bidder, `"` + b.Amt.String() + `"`, b.Denom, b.Type.String()}
			}
			checkReq = func(r any) string {
				q, ok := r.(*types.QueryGetBidRequest)
				if !ok || q.AuctionId != aid || q.BidId != bidID {
					return fmt.Sprintf("%#v", r)
				}
				return ""
			}
		case "get-allowed-bidder":
			wantMethod = "GetAllowedBidder"
			args = []string{fmt.Sprint(aid), bidder3}
			checkReq = func(r any) string {
				q, ok := r.(*types.QueryGetAllowedBidderRequest)
				if !ok || q.AuctionId != aid || q.Bidder != bidder3 {
					return fmt.Sprintf("%#v", r)
				}
				return ""
			}
			if snap.Cap(aid, bidder3) != nil {
				mustShow = []string{bidder3, snap.Cap(aid, bidder3).String()}
			}
		case "list-auction":
			wantMethod = "ListAuction"
			st := rapid.SampledFrom([]string{"", "AUCTION_STATUS_STARTED", "AUCTION_STATUS_VESTING"}).Draw(rt, "q-status")
			ty := rapid.SampledFrom([]string{"", "AUCTION_TYPE_BATCH", "AUCTION_TYPE_FIXED_PRICE"}).Draw(rt, "q-type")
			lim := uint64(uniI(rt, "q-limit", 3))
			if st != "" {
				args = append(args, "--status", st)
			}
			if ty != "" {
				args = append(args, "--type", ty)
			}
			if lim > 0 {
				args = append(args, "--page-limit", fmt.Sprint(lim))
			}
			checkReq = func(r any) string {
				q, ok := r.(*types.QueryAllAuctionRequest)
				if !ok || q.Status != st || q.Type != ty || (lim > 0 && (q.Pagination == nil || q.Pagination.Limit != lim)) {
					return fmt.Sprintf("%#v", r)
				}
				return ""
			}
		case "list-bid":
			wantMethod = "ListBid"
			bd := rapid.SampledFrom([]string{"", bidder3}).Draw(rt, "q-bidder")
			im := rapid.SampledFrom([]string{"", "true", "false"}).Draw(rt, "q-matched")
			args = append(args, "--auction-id", fmt.Sprint(aid))
			if bd != "" {
				args = append(args, "--bidder", bd)
			}
			if im != "" {
				args = append(args, "--is-matched", im)
			}
			for _, b := range snap.BidsOf(aid) {
				if (bd == "" || b.Bidder == bd) && (im == "" || fmt.Sprint(b.Matched) == im) {
					mustShow = append(mustShow, b.Bidder, `"`+b.Amt.String()+`"`)
				}
			}
			checkReq = func(r any) string {
				q, ok := r.(*types.QueryAllBidRequest)
				if !ok || q.AuctionId != aid || q.Bidder != bd || q.IsMatched != im {
					return fmt.Sprintf("%#v", r)
				}
				return ""
			}
		case "list-allowed-bidder":
			wantMethod = "ListAllowedBidder"
			off := uint64(uniI(rt, "q-offset", 2))
			args = append(args, "--auction-id", fmt.Sprint(aid))
			if off > 0 {
				args = append(args, "--page-offset", fmt.Sprint(off))
			}
			checkReq = func(r any) string {
				q, ok := r.(*types.QueryAllAllowedBidderRequest)
				if !ok || q.AuctionId != aid || (off > 0 && (q.Pagination == nil || q.Pagination.Offset != off)) {
					return fmt.Sprintf("%#v", r)
				}
				return ""
			}
		case "list-vesting-queue":
			wantMethod = "ListVestingQueue"
			args = append(args, "--auction-id", fmt.Sprint(aid))
			for _, v := range snap.VQ { // the listing ignores the auction id (known finding of C16): every instalment is shown
				mustShow = append(mustShow, `"`+v.Amt.String()+`"`, v.Auctioneer)
			}
			checkReq = func(r any) string {
				q, ok := r.(*types.QueryAllVestingQueueRequest)
				if !ok || q.AuctionId != aid {
					return fmt.Sprintf("%#v", r)
				}
				return ""
			}
		default:
			report(col, rt, "C20/unknown-query-command/"+name, "the binary registers a query command or alias %q (of %q) that names no query of the module", name, ci.Use)
			return
		}
		if len(args) > 0 && !strings.HasPrefix(args[0], "--") && len(ci.Holders) != len(args) {
			report(col, rt, "C20/query-usage/"+ci.Name, "usage %q advertises %d positional arguments, the request key has %d parts", ci.Use, len(ci.Holders), len(args))
			return
		}
		out, recs, err := runQuery(append([]string{name}, args...)...)
		if len(recs) != 1 {
			if err != nil {
				report(col, rt, "C20/query-command-failed/"+name, "query fundraising %s %s sent %d requests and failed: %v\n%s", name, strings.Join(args, " "), len(recs), err, out)
			} else {
				report(col, rt, "C20/query-requests/"+name, "query fundraising %s %s sent %d requests", name, strings.Join(args, " "), len(recs))
			}
			return
		}
		if !strings.HasSuffix(recs[0].Method, "/"+wantMethod) {
			report(col, rt, "C20/query-routing/"+name, "query fundraising %s %s reached %s, expected the %s RPC", name, strings.Join(args, " "), recs[0].Method, wantMethod)
			return
		}
		if bad := checkReq(recs[0].Req); bad != "" {
			report(col, rt, "C20/query-binding/"+name, "query fundraising %s %s sent %s", name, strings.Join(args, " "), bad)
			return
		}
		// display: only when the node has an answer
		answerable := true
		switch canon {
		case "get-auction":
			answerable = snap.Auction(aid) != nil
		case "get-bid":
			answerable = snap.Bid(aid, bidID) != nil
		case "get-allowed-bidder":
			answerable = snap.Cap(aid, bidder3) != nil
		}
		if answerable {
			if !checkDisplay(rt, canon, out, err, mustShow...) {
				return
			}
		}
		col.Case(map[string]any{"cmd": name, "args": args}, len(ci.Holders) >= 2, map[string]int{"c20:query/" + name: 1}, map[string]any{"command": "query fundraising " + name + " " + strings.Join(args, " ")})
	})
	_ = query.PageRequest{}
}

// TestC20Binary builds the node binary with default settings and runs --help for every command.
func TestC20Binary(t *testing.T) {
	col := world.GlobalCollector(prop)
	repo := os.Getenv("VERIF_REPO")
	if repo == "" {
		repo = "/repo"
	}
	build := os.Getenv("VERIF_BUILD")
	if build == "" {
		build = "/verif/.build"
	}
	bin := filepath.Join(build, fmt.Sprintf("fundraisingd.%d", os.Getpid()))
	defer os.Remove(bin)
	c := exec.Command("go", "build", "-mod=mod", "-o", bin, "./cmd/fundraisingd")
	c.Dir = repo
	c.Env = append(os.Environ(), "GOFLAGS=-mod=mod", "GOPROXY=off", "GOSUMDB=off", "GOTOOLCHAIN=local")
	if out, err := c.CombinedOutput(); err != nil {
		t.Fatalf("cannot build the node binary: %v\n%s", err, out)
	}
	if st := gitStatus(repo); strings.Contains(st, "go.sum") || strings.Contains(st, "go.mod") {
		_ = exec.Command("git", "-C", repo, "checkout", "--", "go.mod", "go.sum").Run()
	}
	home := filepath.Join(build, "clihome", fmt.Sprintf("bin%d", os.Getpid()))
	_ = os.MkdirAll(home, 0o755)
	defer os.RemoveAll(home)
	runBin := func(args ...string) (string, error) {
		ctx, cancel := context.WithTimeout(context.Background(), 60*time.Second)
		defer cancel()
		cmd := exec.CommandContext(ctx, bin, args...)
		cmd.Env = append(os.Environ(), "HOME="+home)
		out, err := cmd.CombinedOutput()
		return string(out), err
	}
	out, err := runBin("--help")
	if err != nil || !strings.Contains(out, "Available Commands") {
		report(col, t, "C20/binary-start", "the node binary built with default settings does not start: %v\n%s", err, tail(out, 2000))
		return
	}
	col.Case("binary --help", false, map[string]int{"c20:binary-help-ok": 1}, nil)
	for _, g := range []string{"tx", "query"} {
		out, err := runBin(g, "fundraising", "--help")
		if err != nil {
			report(col, t, "C20/binary-help/"+g, "'%s fundraising --help' failed: %v\n%s", g, err, tail(out, 2000))
			continue
		}
		// the commands the binary itself lists
		lines := strings.Split(out, "\n")
		in := false
		for _, l := range lines {
			if strings.HasPrefix(l, "Available Commands:") {
				in = true
				continue
			}
			if in {
				f := strings.Fields(l)
				if len(f) == 0 {
					break
				}
				o, err := runBin(g, "fundraising", f[0], "--help")
				if err != nil || !strings.Contains(o, "Usage:") {
					report(col, t, "C20/binary-help/"+g+"/"+f[0], "'%s fundraising %s --help' failed: %v\n%s", g, f[0], err, tail(o, 2000))
				}
				col.Case("binary "+g+" "+f[0]+" --help", false, map[string]int{"c20:binary-help-ok": 1}, nil)
			}
		}
	}
}

func gitStatus(repo string) string {
	out, _ := exec.Command("git", "-C", repo, "status", "--porcelain").Output()
	return string(out)
}

func tail(s string, n int) string {
	if len(s) > n {
		return s[len(s)-n:]
	}
	return s
}
