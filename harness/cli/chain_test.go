package cli

import (
	"context"
	"encoding/json"
	"fmt"
	"net"
	"os"
	"os/exec"
	"path/filepath"
	"strings"
	"testing"
	"time"

	"pgregory.net/rapid"

	"github.com/tendermint/fundraising/x/fundraising/types"
	"verifharness/world"
)

// TestC20Chain (thorough tier): the binary built with default settings is initialised and started
// as a single-node chain on loopback; the module's genesis is seeded with a generated state (an
// auction of each type, bids, allow-list entries, instalments); generated create/cancel
// transactions are sent through the CLI; every query command is run against the node and must
// display the stored objects; the node must keep producing blocks.
func TestC20Chain(t *testing.T) {
	if world.Tier() != "thorough" && os.Getenv("VERIF_CHAIN") != "1" {
		t.Skip("single-node chain runs in the thorough tier only")
	}
	if s := os.Getenv("VERIF_SHARD"); s != "" && s != "0" {
		t.Skip("one node per run: only shard 0 starts the chain")
	}
	txLimit := 25
	col := world.GlobalCollector(prop)
	col.AddRule("Thorough tier only: a single-node chain started from the default-built binary (init, gentx, start on loopback ports chosen by binding :0) with a fundraising genesis exported from a generated in-process state; generated create-auction / cancel transactions signed through the CLI keyring must be executed (code 0), place-bid by a non-listed account and add-allowed-bidder must be refused by the node, every query command must display the stored objects, and the block height must keep growing.")
	repo := os.Getenv("VERIF_REPO")
	if repo == "" {
		repo = "/repo"
	}
	build := os.Getenv("VERIF_BUILD")
	if build == "" {
		build = "/verif/.build"
	}
	bin := filepath.Join(build, fmt.Sprintf("fundraisingd.chain.%d", os.Getpid()))
	defer os.Remove(bin)
	c := exec.Command("go", "build", "-mod=mod", "-o", bin, "./cmd/fundraisingd")
	c.Dir = repo
	c.Env = append(os.Environ(), "GOFLAGS=-mod=mod", "GOPROXY=off", "GOSUMDB=off", "GOTOOLCHAIN=local")
	if out, err := c.CombinedOutput(); err != nil {
		t.Fatalf("cannot build the node binary: %v\n%s", err, out)
	}
	if st := gitStatus(repo); strings.Contains(st, "go.sum") || strings.Contains(st, "go.mod") {
		_ = exec.Command("git", "-C", repo, "checkout", "--", "go.mod", "go.sum").Run()
	}
	home := filepath.Join(build, "clihome", fmt.Sprintf("chain%d", os.Getpid()))
	_ = os.RemoveAll(home)
	_ = os.MkdirAll(home, 0o755)
	defer os.RemoveAll(home)
	nodeHome := filepath.Join(home, "n")
	run := func(timeout time.Duration, args ...string) (string, error) {
		ctx, cancel := context.WithTimeout(context.Background(), timeout)
		defer cancel()
		cmd := exec.CommandContext(ctx, bin, args...)
		cmd.Env = append(os.Environ(), "HOME="+home)
		out, err := cmd.CombinedOutput()
		return string(out), err
	}
	must := func(what string, out string, err error) {
		if err != nil {
			report(col, t, "C20/chain/"+what, "%s failed: %v\n%s", what, err, tail(out, 1500))
		}
	}
	out, err := run(60*time.Second, "init", "n1", "--chain-id", "verifchain", "--home", nodeHome)
	must("init", out, err)
	for _, k := range []string{"val", "user"} {
		out, err = run(30*time.Second, "keys", "add", k, "--keyring-backend", "test", "--home", nodeHome)
		must("keys-add", out, err)
		out, err = run(30*time.Second, "genesis", "add-genesis-account", k, "1000000000000stake,1000000000000sella,1000000000000sellb,1000000000000paya", "--keyring-backend", "test", "--home", nodeHome)
		must("add-genesis-account", out, err)
	}
	out, err = run(60*time.Second, "genesis", "gentx", "val", "1000000000stake", "--chain-id", "verifchain", "--keyring-backend", "test", "--home", nodeHome)
	must("gentx", out, err)
	out, err = run(60*time.Second, "genesis", "collect-gentxs", "--home", nodeHome)
	must("collect-gentxs", out, err)
	if t.Failed() {
		return
	}
	// seed the module genesis with a generated state
	b := world.SharedBase()
	ctx, snap := seedState(b)
	raw := world.ExportModuleGenesis(b, ctx)
	gpath := filepath.Join(nodeHome, "config", "genesis.json")
	gbz, _ := os.ReadFile(gpath)
	var gdoc map[string]json.RawMessage
	if err := json.Unmarshal(gbz, &gdoc); err != nil {
		t.Fatalf("genesis.json: %v", err)
	}
	var appState map[string]json.RawMessage
	_ = json.Unmarshal(gdoc["app_state"], &appState)
	appState[types.ModuleName] = raw
	gdoc["app_state"], _ = json.Marshal(appState)
	gbz, _ = json.MarshalIndent(gdoc, "", " ")
	_ = os.WriteFile(gpath, gbz, 0o644)
	out, err = run(60*time.Second, "genesis", "validate", "--home", nodeHome)
	must("genesis-validate", out, err)
	cfgPath := filepath.Join(nodeHome, "config", "config.toml")
	cbz, _ := os.ReadFile(cfgPath)
	_ = os.WriteFile(cfgPath, []byte(strings.ReplaceAll(string(cbz), `timeout_commit = "5s"`, `timeout_commit = "300ms"`)), 0o644)
	// free loopback ports
	port := func() int {
		l, err := net.Listen("tcp", "127.0.0.1:0")
		if err != nil {
			t.Fatalf("no loopback port: %v", err)
		}
		defer l.Close()
		return l.Addr().(*net.TCPAddr).Port
	}
	rpc, p2p, grpcP := port(), port(), port()
	node := exec.Command(bin, "start", "--home", nodeHome, "--minimum-gas-prices", "0stake",
		"--rpc.laddr", fmt.Sprintf("tcp://127.0.0.1:%d", rpc), "--p2p.laddr", fmt.Sprintf("tcp://127.0.0.1:%d", p2p),
		"--grpc.address", fmt.Sprintf("127.0.0.1:%d", grpcP), "--api.enable=false", "--grpc-web.enable=false", "--rpc.pprof_laddr", "")
	node.Env = append(os.Environ(), "HOME="+home)
	logf, _ := os.Create(filepath.Join(home, "node.log"))
	node.Stdout, node.Stderr = logf, logf
	if err := node.Start(); err != nil {
		t.Fatalf("cannot start the node: %v", err)
	}
	defer func() {
		_ = node.Process.Kill()
		_, _ = node.Process.Wait()
	}()
	nodeAddr := fmt.Sprintf("tcp://127.0.0.1:%d", rpc)
	height := func() int64 {
		out, err := run(15*time.Second, "status", "--node", nodeAddr)
		if err != nil {
			return -1
		}
		var st struct {
			SyncInfo struct {
				H string `json:"latest_block_height"`
			} `json:"sync_info"`
		}
		if json.Unmarshal([]byte(out), &st) != nil {
			return -1
		}
		var h int64
		fmt.Sscan(st.SyncInfo.H, &h)
		return h
	}
	waitHeight := func(min int64, d time.Duration) int64 {
		deadline := time.Now().Add(d)
		for time.Now().Before(deadline) {
			if h := height(); h >= min {
				return h
			}
			time.Sleep(300 * time.Millisecond)
		}
		return height()
	}
	if h := waitHeight(3, 90*time.Second); h < 3 {
		lg, _ := os.ReadFile(filepath.Join(home, "node.log"))
		report(col, t, "C20/chain/no-blocks", "the node started from the default binary does not produce blocks (height %d):\n%s", h, tail(string(lg), 2500))
		return
	}
	col.Case("chain: node produces blocks", false, map[string]int{"c20:chain-started": 1}, nil)

	query := func(args ...string) (string, error) {
		return run(30*time.Second, append(append([]string{"query", "fundraising"}, args...), "--node", nodeAddr, "--output", "json")...)
	}
	txFlags := []string{"--keyring-backend", "test", "--home", nodeHome, "--chain-id", "verifchain", "--node", nodeAddr, "--yes", "--fees", "0stake", "--gas", "2000000", "--output", "json"}
	sendTx := func(from string, args ...string) (code int, rawLog string, err error) {
		out, err := run(60*time.Second, append(append([]string{"tx", "fundraising"}, args...), append(txFlags, "--from", from)...)...)
		if err != nil {
			return -1, out, err
		}
		var br struct {
			Code   int    `json:"code"`
			TxHash string `json:"txhash"`
			RawLog string `json:"raw_log"`
		}
		if jerr := json.Unmarshal([]byte(strings.TrimSpace(out)), &br); jerr != nil {
			return -1, out, jerr
		}
		if br.Code != 0 {
			return br.Code, br.RawLog, nil
		}
		// wait for inclusion and read the execution result
		for i := 0; i < 40; i++ {
			time.Sleep(400 * time.Millisecond)
			o, e := run(15*time.Second, "query", "tx", br.TxHash, "--node", nodeAddr, "--output", "json")
			if e != nil {
				continue
			}
			var tr struct {
				Code   int    `json:"code"`
				RawLog string `json:"raw_log"`
			}
			if json.Unmarshal([]byte(o), &tr) == nil {
				return tr.Code, tr.RawLog, nil
			}
		}
		return -1, "transaction not found after 16s", fmt.Errorf("not included")
	}
	// ---- every query command displays the seeded objects ----
	bidder3 := world.Addrs[3].String()
	a0 := snap.Auction(0)
	checks := []struct {
		args []string
		must []string
	}{
		{[]string{"params"}, []string{"extended_period"}},
		{[]string{"get-auction", "0"}, []string{a0.Auctioneer, `"` + a0.SellAmt.String() + `"`, a0.SellDenom}},
		{[]string{"show-auction", "1"}, []string{snap.Auction(1).Auctioneer, "AUCTION_TYPE_BATCH"}},
		{[]string{"list-auction"}, []string{a0.Auctioneer, snap.Auction(1).Auctioneer}},
		{[]string{"get-bid", "0", "1"}, []string{snap.Bid(0, 1).Bidder, `"` + snap.Bid(0, 1).Amt.String() + `"`}},
		{[]string{"list-bid", "--auction-id", "1"}, []string{snap.Bid(1, 1).Bidder, `"` + snap.Bid(1, 2).Amt.String() + `"`}},
		{[]string{"get-allowed-bidder", "0", bidder3}, []string{bidder3, snap.Cap(0, bidder3).String()}},
		{[]string{"list-allowed-bidder"}, []string{bidder3}},
		{[]string{"list-vesting-queue"}, []string{snap.VQ[0].Auctioneer, `"` + snap.VQ[0].Amt.String() + `"`}},
	}
	for _, q := range checks {
		out, err := query(q.args...)
		name := q.args[0]
		if err != nil {
			report(col, t, "C20/chain/query/"+name, "query fundraising %s against the node failed: %v\n%s", strings.Join(q.args, " "), err, tail(out, 1500))
			continue
		}
		var js any
		if jerr := json.Unmarshal([]byte(strings.TrimSpace(out)), &js); jerr != nil {
			report(col, t, "C20/chain/query/"+name, "query fundraising %s printed invalid JSON: %v\n%s", strings.Join(q.args, " "), jerr, tail(out, 800))
			continue
		}
		for _, m := range q.must {
			if !strings.Contains(out, m) {
				report(col, t, "C20/chain/query-content/"+name, "the answer of 'query fundraising %s' lacks %q:\n%s", strings.Join(q.args, " "), m, tail(out, 1500))
			}
		}
		col.Case(map[string]any{"chain-query": q.args}, len(q.args) > 2, map[string]int{"c20:chain-query/" + name: 1}, nil)
	}
	// ---- generated transactions through the CLI ----
	nextID := uint64(len(snap.Auctions))
	txDone := 0
	rapid.Check(t, func(rt *rapid.T) {
		if txDone >= txLimit {
			return // the number of on-chain cases is bounded separately from -rapid.checks
		}
		txDone++
		price := genDecMantissa(rt, "price")
		amt := rapid.Int64Range(1, 1_000_000).Draw(rt, "amount")
		fixed := rapid.Bool().Draw(rt, "fixed")
		start := time.Now().UTC().Add(time.Duration(rapid.IntRange(1, 48).Draw(rt, "start-h")) * time.Hour).Truncate(time.Second)
		end := start.Add(time.Duration(rapid.IntRange(1, 48).Draw(rt, "len-h")) * time.Hour)
		sched := fmt.Sprintf(`{"release_time":"%s","weight":"1000000000000000000"}`, end.Add(time.Hour).Format(time.RFC3339))
		var args []string
		if fixed {
			args = []string{"create-fixed-price-auction", price.String(), fmt.Sprintf("%dsella", amt), "paya", sched, start.Format(time.RFC3339), end.Format(time.RFC3339)}
		} else {
			args = []string{"create-batch-auction", price.String(), price.String(), fmt.Sprintf("%dsellb", amt), "paya", sched, fmt.Sprint(rapid.IntRange(0, 30).Draw(rt, "rounds")), "500000000000000000", start.Format(time.RFC3339), end.Format(time.RFC3339)}
		}
		code, rawLog, err := sendTx("user", args...)
		if err != nil || code != 0 {
			report(col, rt, "C20/chain/tx/"+args[0], "tx fundraising %s was not executed by the node: code %d %v\n%s", strings.Join(args, " "), code, err, tail(rawLog, 800))
			return
		}
		id := nextID
		nextID++
		out, err := query("get-auction", fmt.Sprint(id))
		if err != nil || !strings.Contains(out, fmt.Sprintf(`"%d"`, amt)) || !strings.Contains(out, "AUCTION_STATUS_STANDBY") {
			report(col, rt, "C20/chain/tx-effect/"+args[0], "after tx fundraising %s the node does not show waiting auction %d with amount %d: %v\n%s", strings.Join(args, " "), id, amt, err, tail(out, 1200))
			return
		}
		// a non-listed account cannot bid, nobody can allow-list through a transaction, the auctioneer can cancel
		if code, _, _ := sendTx("val", "add-allowed-bidder", "--auction-id", fmt.Sprint(id)); code == 0 {
			report(col, rt, "C20/chain/add-allowed-bidder-accepted", "the default-built node executed an add-allowed-bidder transaction")
		}
		code, rawLog, err = sendTx("user", "cancel-auction", fmt.Sprint(id))
		if err != nil || code != 0 {
			report(col, rt, "C20/chain/tx/cancel-auction", "cancel-auction %d by its auctioneer was not executed: code %d %v %s", id, code, err, tail(rawLog, 500))
			return
		}
		out, _ = query("get-auction", fmt.Sprint(id))
		if !strings.Contains(out, "AUCTION_STATUS_CANCELLED") {
			report(col, rt, "C20/chain/tx-effect/cancel-auction", "after cancel-auction %d the node shows:\n%s", id, tail(out, 800))
		}
		col.Case(map[string]any{"chain-tx": args}, true, map[string]int{"c20:chain-tx/" + args[0]: 1}, map[string]any{"chain_transaction": "tx fundraising " + strings.Join(args, " ")})
	})
	// the chain is still alive
	h1 := height()
	if h2 := waitHeight(h1+2, 30*time.Second); h2 < h1+2 {
		lg, _ := os.ReadFile(filepath.Join(home, "node.log"))
		report(col, t, "C20/chain/halted", "the node stopped producing blocks at height %d:\n%s", h2, tail(string(lg), 2500))
	}
}
