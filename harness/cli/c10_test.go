package cli

import (
	"testing"

	"verifharness/world"
)

// The C10 checks run from this package because its test binary links cmd/fundraisingd/cmd and
// therefore exactly the package init graph of the shipped binary (no -ldflags).
func TestC10K(t *testing.T) { world.RunK(t, world.CfgC10()) }
func TestC10A(t *testing.T) { world.RunC10A(t) }
