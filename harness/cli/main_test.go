package cli

import (
	"os"
	"testing"

	"verifharness/world"
)

func TestMain(m *testing.M) {
	code := m.Run()
	world.FlushEvidence()
	os.Exit(code)
}
