package world

import (
	"fmt"
	"math/big"
	"sort"
	"strings"
	"time"

	"cosmossdk.io/collections"
	sdk "github.com/cosmos/cosmos-sdk/types"

	"github.com/tendermint/fundraising/x/fundraising/keeper"
	"github.com/tendermint/fundraising/x/fundraising/types"
)

// SchedRec is a vesting schedule entry of an auction record.
type SchedRec struct {
	Release time.Time
	WeightM *big.Int
}

// Auc is a flattened auction record (both types).
type Auc struct {
	ID         uint64
	Type       types.AuctionType
	Auctioneer string // canonical spelling of the stored address
	// AuctioneerRaw is the address string exactly as stored.
	AuctioneerRaw string
	SellingAddr   string
	PayingAddr    string
	VestingAddr   string
	StartPriceM   *big.Int
	SellDenom     string
	SellAmt       *big.Int
	PayDenom      string
	Schedules     []SchedRec
	Start         time.Time
	EndTimes      []time.Time
	Status        types.AuctionStatus
	// fixed price
	RemainingDenom string
	Remaining      *big.Int
	// batch
	MinPriceM     *big.Int
	MatchedPriceM *big.Int
	MaxRounds     uint32
	RateM         *big.Int
}

// LastEnd is the current (last) end time.
func (a *Auc) LastEnd() time.Time { return a.EndTimes[len(a.EndTimes)-1] }

// IsBatch reports whether the auction is a batch auction.
func (a *Auc) IsBatch() bool { return a.Type == types.AuctionTypeBatch }

// Terms renders the agreed, immutable terms of the auction (C19).
func (a *Auc) Terms() string {
	var sb strings.Builder
	fmt.Fprintf(&sb, "id=%d type=%d auctioneer=%s sell=%s%s pay=%s startprice=%s start=%s end0=%s addrs=%s/%s/%s",
		a.ID, a.Type, a.Auctioneer, a.SellAmt, a.SellDenom, a.PayDenom, a.StartPriceM, tfmt(a.Start), tfmt(a.EndTimes[0]),
		a.SellingAddr, a.PayingAddr, a.VestingAddr)
	if a.IsBatch() {
		fmt.Fprintf(&sb, " min=%s maxrounds=%d rate=%s", a.MinPriceM, a.MaxRounds, a.RateM)
	}
	for _, s := range a.Schedules {
		fmt.Fprintf(&sb, " vs(%s,%s)", tfmt(s.Release), s.WeightM)
	}
	return sb.String()
}

// Canon renders the whole record.
func (a *Auc) Canon() string {
	var ends []string
	for _, e := range a.EndTimes {
		ends = append(ends, tfmt(e))
	}
	s := a.Terms() + fmt.Sprintf(" status=%d ends=%s", a.Status, strings.Join(ends, ","))
	if a.IsBatch() {
		s += fmt.Sprintf(" matched=%s", a.MatchedPriceM)
	} else {
		s += fmt.Sprintf(" remaining=%s%s", a.Remaining, a.RemainingDenom)
	}
	return s
}

// spelled renders the stored spelling of an address when it is not the canonical one.
func spelled(canon, raw string) string {
	if raw == "" || raw == canon {
		return ""
	}
	return "(stored as " + raw + ")"
}

func tfmt(t time.Time) string { return t.UTC().Format(time.RFC3339Nano) }

// BidRec is a flattened bid record.
type BidRec struct {
	Auction uint64
	ID      uint64
	Bidder  string // canonical spelling of the stored address
	// BidderRaw is the address string exactly as stored.
	BidderRaw string
	Type      types.BidType
	PriceM    *big.Int
	Denom     string
	Amt       *big.Int
	Matched   bool
}

func (b *BidRec) Canon() string {
	return fmt.Sprintf("bid a=%d id=%d bidder=%s%s type=%d price=%s coin=%s%s matched=%v", b.Auction, b.ID, b.Bidder, spelled(b.Bidder, b.BidderRaw), b.Type, b.PriceM, b.Amt, b.Denom, b.Matched)
}

// Req is the reservation the bid requires: the worth coin, or ceil(amount*price).
func (b *BidRec) Req(payDenom string) *big.Int {
	if b.Denom == payDenom {
		return bcopy(b.Amt)
	}
	return MulCeil(b.Amt, b.PriceM)
}

// QtyAt is the quantity of selling coin the bid asks for at price p.
func (b *BidRec) QtyAt(payDenom string, pM *big.Int) *big.Int {
	if b.Denom == payDenom {
		return QuoFloor(b.Amt, pM)
	}
	return bcopy(b.Amt)
}

// AllowedRec is an allow-list entry.
type AllowedRec struct {
	Auction   uint64
	Bidder    string // canonical
	BidderRaw string
	Max       *big.Int
}

func (a *AllowedRec) Canon() string {
	return fmt.Sprintf("allowed a=%d bidder=%s%s max=%s", a.Auction, a.Bidder, spelled(a.Bidder, a.BidderRaw), a.Max)
}

// VQRec is a vesting instalment.
type VQRec struct {
	Auction    uint64
	Auctioneer string
	Denom      string
	Amt        *big.Int
	Release    time.Time
	Released   bool
}

func (v *VQRec) Canon() string {
	return fmt.Sprintf("vq a=%d auctioneer=%s coin=%s%s release=%s released=%v", v.Auction, v.Auctioneer, v.Amt, v.Denom, tfmt(v.Release), v.Released)
}

// Snap is a complete observation of the module state and of all bank balances.
type Snap struct {
	Time       time.Time
	Params     types.Params
	AuctionSeq uint64
	Auctions   []*Auc
	Bids       []*BidRec
	Allowed    []*AllowedRec
	VQ         []*VQRec
	BidSeq     map[uint64]uint64
	MatchedLen map[uint64]int64
	Bal        map[string]map[string]*big.Int
	Supply     map[string]*big.Int
	Pool       map[string]*big.Int // community pool (truncated DecCoins mantissas / 1e18)
}

func flatten(a types.AuctionI) *Auc {
	r := &Auc{}
	var ba *types.BaseAuction
	switch x := a.(type) {
	case *types.FixedPriceAuction:
		ba = x.BaseAuction
		r.RemainingDenom = x.RemainingSellingCoin.Denom
		r.Remaining = IntB(x.RemainingSellingCoin.Amount)
	case *types.BatchAuction:
		ba = x.BaseAuction
		r.MinPriceM = DecM(x.MinBidPrice)
		r.MatchedPriceM = DecM(x.MatchedPrice)
		r.MaxRounds = x.MaxExtendedRound
		r.RateM = DecM(x.ExtendedRoundRate)
	default:
		panic(fmt.Sprintf("unknown auction type %T", a))
	}
	r.ID = ba.Id
	r.Type = ba.Type
	r.Auctioneer = CanonAddr(ba.Auctioneer)
	r.AuctioneerRaw = ba.Auctioneer
	r.SellingAddr = ba.SellingReserveAddress
	r.PayingAddr = ba.PayingReserveAddress
	r.VestingAddr = ba.VestingReserveAddress
	r.StartPriceM = DecM(ba.StartPrice)
	r.SellDenom = ba.SellingCoin.Denom
	r.SellAmt = IntB(ba.SellingCoin.Amount)
	r.PayDenom = ba.PayingCoinDenom
	for _, s := range ba.VestingSchedules {
		r.Schedules = append(r.Schedules, SchedRec{Release: s.ReleaseTime.UTC(), WeightM: DecM(s.Weight)})
	}
	r.Start = ba.StartTime.UTC()
	for _, e := range ba.EndTimes {
		r.EndTimes = append(r.EndTimes, e.UTC())
	}
	r.Status = ba.Status
	return r
}

// FlattenBid converts a stored bid.
func FlattenBid(b types.Bid) *BidRec {
	return &BidRec{Auction: b.AuctionId, ID: b.Id, Bidder: CanonAddr(b.Bidder), BidderRaw: b.Bidder, Type: b.Type, PriceM: DecM(b.Price), Denom: b.Coin.Denom, Amt: IntB(b.Coin.Amount), Matched: b.IsMatched}
}

// TakeSnap reads the complete module state and every bank balance.
func TakeSnap(b *Base, ctx sdk.Context) *Snap {
	k := b.K
	s := &Snap{Time: ctx.BlockTime(), BidSeq: map[uint64]uint64{}, MatchedLen: map[uint64]int64{}, Bal: map[string]map[string]*big.Int{}, Supply: map[string]*big.Int{}, Pool: map[string]*big.Int{}}
	var err error
	s.Params, err = k.Params.Get(ctx)
	must(err)
	s.AuctionSeq, err = k.AuctionSeq.Peek(ctx)
	must(err)
	must(k.Auction.Walk(ctx, nil, func(id uint64, a types.AuctionI) (bool, error) {
		r := flatten(a)
		if r.ID != id {
			panic(fmt.Sprintf("auction stored under key %d has id %d", id, r.ID))
		}
		s.Auctions = append(s.Auctions, r)
		return false, nil
	}))
	must(k.Bid.Walk(ctx, nil, func(key collections.Pair[uint64, uint64], bd types.Bid) (bool, error) {
		r := FlattenBid(bd)
		if r.Auction != key.K1() || r.ID != key.K2() {
			panic(fmt.Sprintf("bid stored under key %d/%d has ids %d/%d", key.K1(), key.K2(), r.Auction, r.ID))
		}
		s.Bids = append(s.Bids, r)
		return false, nil
	}))
	must(k.AllowedBidder.Walk(ctx, nil, func(key collections.Pair[uint64, sdk.AccAddress], ab types.AllowedBidder) (bool, error) {
		s.Allowed = append(s.Allowed, &AllowedRec{Auction: key.K1(), Bidder: CanonAddr(ab.Bidder), BidderRaw: ab.Bidder, Max: IntB(ab.MaxBidAmount)})
		return false, nil
	}))
	must(k.VestingQueue.Walk(ctx, nil, func(key collections.Pair[uint64, time.Time], vq types.VestingQueue) (bool, error) {
		s.VQ = append(s.VQ, &VQRec{Auction: vq.AuctionId, Auctioneer: CanonAddr(vq.Auctioneer), Denom: vq.PayingCoin.Denom, Amt: IntB(vq.PayingCoin.Amount), Release: vq.ReleaseTime.UTC(), Released: vq.Released})
		return false, nil
	}))
	must(k.BidSeq.Walk(ctx, nil, func(id uint64, v uint64) (bool, error) { s.BidSeq[id] = v; return false, nil }))
	must(k.MatchedBidsLen.Walk(ctx, nil, func(id uint64, v int64) (bool, error) { s.MatchedLen[id] = v; return false, nil }))
	b.App.BankKeeper.IterateAllBalances(ctx, func(addr sdk.AccAddress, c sdk.Coin) bool {
		m := s.Bal[addr.String()]
		if m == nil {
			m = map[string]*big.Int{}
			s.Bal[addr.String()] = m
		}
		m[c.Denom] = c.Amount.BigInt()
		return false
	})
	for _, d := range AllDenoms {
		s.Supply[d] = b.App.BankKeeper.GetSupply(ctx, d).Amount.BigInt()
	}
	fp, err := b.App.DistrKeeper.FeePool.Get(ctx)
	must(err)
	for _, dc := range fp.CommunityPool {
		s.Pool[dc.Denom] = dc.Amount.TruncateInt().BigInt()
	}
	return s
}

func must(err error) {
	if err != nil {
		panic(err)
	}
}

// BalOf returns the balance of addr in denom (0 when absent).
func (s *Snap) BalOf(addr, denom string) *big.Int {
	if m := s.Bal[addr]; m != nil {
		if v := m[denom]; v != nil {
			return v
		}
	}
	return bigZero
}

// PoolOf returns the community pool amount of denom.
func (s *Snap) PoolOf(denom string) *big.Int {
	if v := s.Pool[denom]; v != nil {
		return v
	}
	return bigZero
}

// Auction returns the auction with the id, or nil.
func (s *Snap) Auction(id uint64) *Auc {
	for _, a := range s.Auctions {
		if a.ID == id {
			return a
		}
	}
	return nil
}

// BidsOf returns the bids of an auction in id order.
func (s *Snap) BidsOf(id uint64) []*BidRec {
	var out []*BidRec
	for _, b := range s.Bids {
		if b.Auction == id {
			out = append(out, b)
		}
	}
	return out
}

// Bid returns one bid or nil.
func (s *Snap) Bid(auction, id uint64) *BidRec {
	for _, b := range s.Bids {
		if b.Auction == auction && b.ID == id {
			return b
		}
	}
	return nil
}

// AllowedOf returns the allow-list of an auction.
func (s *Snap) AllowedOf(id uint64) []*AllowedRec {
	var out []*AllowedRec
	for _, a := range s.Allowed {
		if a.Auction == id {
			out = append(out, a)
		}
	}
	return out
}

// Cap returns the allowance of bidder in auction (nil when not listed).
func (s *Snap) Cap(auction uint64, bidder string) *big.Int {
	for _, a := range s.Allowed {
		if a.Auction == auction && a.Bidder == bidder {
			return a.Max
		}
	}
	return nil
}

// VQOf returns the instalments of an auction in release order.
func (s *Snap) VQOf(id uint64) []*VQRec {
	var out []*VQRec
	for _, v := range s.VQ {
		if v.Auction == id {
			out = append(out, v)
		}
	}
	return out
}

// AuctionCanon renders everything that belongs to one auction: record, bids, allow-list,
// instalments, counters and the three escrow balances (C19 frame, C15 comparison).
func (s *Snap) AuctionCanon(id uint64) string {
	var sb strings.Builder
	a := s.Auction(id)
	if a == nil {
		return ""
	}
	sb.WriteString(a.Canon() + "\n")
	for _, b := range s.BidsOf(id) {
		sb.WriteString(b.Canon() + "\n")
	}
	for _, ab := range s.AllowedOf(id) {
		sb.WriteString(ab.Canon() + "\n")
	}
	for _, v := range s.VQOf(id) {
		sb.WriteString(v.Canon() + "\n")
	}
	fmt.Fprintf(&sb, "bidseq=%d\n", s.BidSeq[id])
	for _, addr := range []string{a.SellingAddr, a.PayingAddr, a.VestingAddr} {
		sb.WriteString(s.balCanon(addr) + "\n")
	}
	return sb.String()
}

func (s *Snap) balCanon(addr string) string {
	m := s.Bal[addr]
	var ds []string
	for d, v := range m {
		if v.Sign() != 0 {
			ds = append(ds, d)
		}
	}
	sort.Strings(ds)
	var parts []string
	for _, d := range ds {
		parts = append(parts, m[d].String()+d)
	}
	return addr + ":" + strings.Join(parts, ",")
}

// ModuleCanon renders the whole module state (without balances).
func (s *Snap) ModuleCanon(withMatchedLen bool) string {
	var sb strings.Builder
	fmt.Fprintf(&sb, "params creation=%s bid=%s period=%d\nauctionseq=%d\n", s.Params.AuctionCreationFee, s.Params.PlaceBidFee, s.Params.ExtendedPeriod, s.AuctionSeq)
	for _, a := range s.Auctions {
		sb.WriteString(a.Canon() + "\n")
	}
	for _, b := range s.Bids {
		sb.WriteString(b.Canon() + "\n")
	}
	for _, ab := range s.Allowed {
		sb.WriteString(ab.Canon() + "\n")
	}
	for _, v := range s.VQ {
		sb.WriteString(v.Canon() + "\n")
	}
	var ids []uint64
	for id := range s.BidSeq {
		ids = append(ids, id)
	}
	sort.Slice(ids, func(i, j int) bool { return ids[i] < ids[j] })
	for _, id := range ids {
		fmt.Fprintf(&sb, "bidseq[%d]=%d\n", id, s.BidSeq[id])
	}
	if withMatchedLen {
		ids = ids[:0]
		for id := range s.MatchedLen {
			ids = append(ids, id)
		}
		sort.Slice(ids, func(i, j int) bool { return ids[i] < ids[j] })
		for _, id := range ids {
			fmt.Fprintf(&sb, "matchedlen[%d]=%d\n", id, s.MatchedLen[id])
		}
	}
	return sb.String()
}

// BalancesCanon renders every non-zero balance.
func (s *Snap) BalancesCanon() string {
	var addrs []string
	for a := range s.Bal {
		addrs = append(addrs, a)
	}
	sort.Strings(addrs)
	var sb strings.Builder
	for _, a := range addrs {
		sb.WriteString(s.balCanon(a) + "\n")
	}
	return sb.String()
}

var _ = keeper.Keeper{}
