package world

import (
	"fmt"
	"math/big"

	"github.com/tendermint/fundraising/x/fundraising/types"
)

// settleFlows extracts what the settling step transferred out of auction a's escrows.
type settleFlows struct {
	S        map[string]*big.Int // recipient -> selling coin from the selling escrow
	P        map[string]*big.Int // recipient -> paying coin from the paying escrow
	ToVest   *big.Int            // paying escrow -> vesting escrow
	LastPayP string              // recipient of the last transfer out of the paying escrow
}

func flowsOfSettlement(st *Step, a *Auc) *settleFlows {
	f := &settleFlows{S: map[string]*big.Int{}, P: map[string]*big.Int{}, ToVest: new(big.Int)}
	for _, x := range st.Xfers {
		switch {
		case x.From == a.SellingAddr && x.Denom == a.SellDenom:
			f.S[x.To] = badd(zeroIfNil(f.S[x.To]), x.Amt)
		case x.From == a.PayingAddr && x.Denom == a.PayDenom && x.To == a.VestingAddr:
			f.ToVest.Add(f.ToVest, x.Amt)
		case x.From == a.PayingAddr && x.Denom == a.PayDenom:
			f.P[x.To] = badd(zeroIfNil(f.P[x.To]), x.Amt)
			f.LastPayP = x.To
		}
	}
	return f
}

// ---------------------------------------------------------------------------------------------
// C03 — the clearing price is the lowest bid price whose capped demand fits supply (K part:
// order books built through messages, modifications and cap updates, observed at settlement).
// ---------------------------------------------------------------------------------------------
type monC03 struct{}

func labelBook(h *History, prefix string, r *MatchRef) {
	if r.Prices >= 2 && r.RejectedPrices >= 1 {
		h.Label(prefix + ":>=2prices-and-rejected-price")
	}
	if r.DustTop {
		h.Label(prefix + ":dust-at-top-price")
	}
	if r.AnyCapBinds {
		h.Label(prefix + ":binding-cap")
	}
	if r.DupAcrossBidder {
		h.Label(prefix + ":duplicate-price-across-bidders")
	}
	if r.NothingFits {
		h.Label(prefix + ":nothing-fits")
	}
	if r.EverythingFits {
		h.Label(prefix + ":everything-fits")
	}
	if r.Sold {
		h.Label(prefix + ":sold")
	}
}

func (monC03) Step(h *History, st *Step) []Violation {
	var vs []Violation
	for _, tr := range st.Trans {
		if !tr.Settled || !tr.Pre.IsBatch() {
			continue
		}
		rec := h.Settle[tr.ID]
		r := rec.Ref
		a := tr.Pre
		f := flowsOfSettlement(st, a)
		// the clearing price the auction records is the reference clearing price
		if pa := st.Post.Auction(a.ID); pa != nil && r.Sold && r.PStarM != nil && (pa.MatchedPriceM == nil || pa.MatchedPriceM.Cmp(r.PStarM) != 0) {
			vs = append(vs, viol("C03/clearing-price-recorded", "auction %d settled: the recorded clearing price is %s, the lowest qualifying bid price is %s", a.ID, mOrNil(pa.MatchedPriceM), mstr(r.PStarM)))
		}
		labelBook(h, "c03", r)
		h.Label("c03:settlement")
		total := new(big.Int)
		for _, b := range r.Bidders {
			got := zeroIfNil(f.S[b])
			want := r.Alloc[b]
			if b == a.Auctioneer {
				continue // the auctioneer also receives the unsold remainder; checked through the total
			}
			total.Add(total, got)
			if got.Cmp(want) != 0 {
				vs = append(vs, viol("C03/allocation", "auction %d settled: %s received %s%s, reference capped demand at clearing price %s is %s (supply %s, caps %v)", a.ID, short(b), got, a.SellDenom, mOrNil(r.PStarM), want, a.SellAmt, capsStr(rec.Caps)))
			}
		}
		// recipients that never bid must not receive selling coin (other than the auctioneer)
		for to, v := range f.S {
			if to != a.Auctioneer && r.Alloc[to] == nil && v.Sign() > 0 {
				vs = append(vs, viol("C03/allocation-to-non-bidder", "auction %d settled: %s received %s%s without a bid", a.ID, short(to), v, a.SellDenom))
			}
		}
		if !r.Sold {
			// nothing is sold and everything is refunded
			for _, b := range r.Bidders {
				if b == a.Auctioneer && len(a.Schedules) == 0 {
					continue
				}
				if reserved := flowOf(h.InP, a.ID, b); zeroIfNil(f.P[b]).Cmp(reserved) != 0 {
					vs = append(vs, viol("C03/no-sale-refund", "auction %d settled with no qualifying price: %s reserved %s%s but was refunded %s", a.ID, short(b), reserved, a.PayDenom, zeroIfNil(f.P[b])))
				}
			}
		}
		// total distributed (auctioneer's own allocation included) = reference total:
		// selling escrow paid out offered + donations, of which the auctioneer keeps the unsold part
		if aa := r.Alloc[a.Auctioneer]; aa == nil || aa.Sign() == 0 {
			unsold := zeroIfNil(f.S[a.Auctioneer])
			wantUnsold := bsub(badd(a.SellAmt, st.SweptS[a.ID]), r.Total)
			if unsold.Cmp(wantUnsold) != 0 {
				vs = append(vs, viol("C03/total-sold", "auction %d settled: %s%s returned unsold, reference total sold %s of %s (+%s donated)", a.ID, unsold, a.SellDenom, r.Total, a.SellAmt, st.SweptS[a.ID]))
			}
		}
	}
	return vs
}

func (monC03) Final(h *History) []Violation { return nil }

func mOrNil(m *big.Int) string {
	if m == nil {
		return "none"
	}
	return mstr(m)
}

func capsStr(c map[string]*big.Int) string {
	s := ""
	for _, k := range sortedKeys(c) {
		s += fmt.Sprintf("%s:%s ", short(k), c[k])
	}
	return s
}

// CfgC03 is the Engine K configuration of C03.
func CfgC03() PropCfg {
	w := DefaultWeights()
	w.CreateFixed, w.CreateBatch = 1, 12
	w.PlaceBid, w.ModifyBid, w.UpdateAllowed, w.Block = 40, 12, 8, 14
	w.PerturbPct = 4
	w.MaxAuctions = 3
	return PropCfg{ID: "C03", Weights: w, MinOps: 12, MaxOps: 60, DrivePct: 95,
		New: func() Monitor { return monC03{} },
		NonTrivial: func(h *History) bool { return hasLabel(h, "c03:>=2prices-and-rejected-price") },
		Rule: "K: batch order books built through PlaceBid/ModifyBid/UpdateAllowedBidder messages, then settled by block processing; selling-coin transfers of the settling block are compared with a big-integer linear-scan reference clearing (lowest recorded price whose capped demand fits supply; capped demand per bidder). D: 1-12 directly stored bids over 1-5 bidders from a small price pool (ties, dust at the top price, binding caps) through CalculateBatchAllocation, MatchingInfo compared with the same reference. Non-trivial = >=2 distinct prices and >=1 price rejected for over-demand.",
	}
}

// ---------------------------------------------------------------------------------------------
// C04 — one uniform price, never above the limit, bounded rounding.
// ---------------------------------------------------------------------------------------------
type monC04 struct{}

func (monC04) Step(h *History, st *Step) []Violation {
	var vs []Violation
	pre, post := st.Pre, st.Post
	// fixed price: every accepted bid pays the fixed price for what it receives
	if st.Op.Kind == OpPlaceBid && st.Res.OK {
		a := pre.Auction(st.Op.Auction)
		if a != nil && !a.IsBatch() {
			var nb *BidRec
			for _, b := range post.BidsOf(a.ID) {
				if pre.Bid(b.Auction, b.ID) == nil {
					nb = b
				}
			}
			if nb != nil {
				p := a.StartPriceM
				signer := st.Op.SignerAddr()
				fee := coinsMap(pre.Params.PlaceBidFee)
				charged := bsub(bsub(pre.BalOf(signer, a.PayDenom), post.BalOf(signer, a.PayDenom)), zeroIfNil(fee[a.PayDenom]))
				recv := bsub(pre.Auction(a.ID).Remaining, post.Auction(a.ID).Remaining) // what the bid took from the remainder
				if nb.Denom == a.PayDenom {
					c := nb.Amt
					q := QuoFloor(c, p)
					// pays c, receives floor(c/p); 0 <= c - p*q < p
					slack := bsub(bmul(c, E18), bmul(p, q)) // scaled 1e18
					_ = recv
					if charged.Cmp(c) != 0 || slack.Sign() < 0 || slack.Cmp(p) >= 0 {
						vs = append(vs, viol("C04/fixed-paying-denominated", "fixed price %s: bid of %s%s was charged %s and took %s from the remainder; expected charge %s for floor(c/p)=%s", mstr(p), c, a.PayDenom, charged, recv, c, q))
					}
					if new(big.Int).Mod(bmul(c, E18), p).Sign() != 0 {
						h.Label("c04:fixed-paying-rounding")
					}
				} else {
					s := nb.Amt
					pay := MulCeil(s, p)
					// receives s, pays ceil(p*s): 0 <= pay - p*s < 1
					slack := bsub(bmul(pay, E18), bmul(p, s))
					if charged.Cmp(pay) != 0 || slack.Sign() < 0 || slack.Cmp(E18) >= 0 {
						vs = append(vs, viol("C04/fixed-selling-denominated", "fixed price %s: bid for %s%s was charged %s and took %s from the remainder; expected charge ceil(p*s)=%s", mstr(p), s, a.SellDenom, charged, recv, pay))
					}
					if new(big.Int).Mod(bmul(s, p), E18).Sign() != 0 {
						h.Label("c04:fixed-selling-rounding")
					}
				}
			}
		}
	}
	for _, tr := range st.Trans {
		if !tr.Settled {
			continue
		}
		a := tr.Pre
		rec := h.Settle[tr.ID]
		f := flowsOfSettlement(st, a)
		if !a.IsBatch() {
			// fixed price settlement: each bidder receives the sum of its quantities, no refunds
			for b, q := range rec.Alloc {
				if b == a.Auctioneer {
					continue
				}
				if zeroIfNil(f.S[b]).Cmp(q) != 0 {
					vs = append(vs, viol("C04/fixed-settlement-quantity", "fixed price auction %d settled: %s received %s%s, its accepted bids add up to %s", a.ID, short(b), zeroIfNil(f.S[b]), a.SellDenom, q))
				}
				if zeroIfNil(f.P[b]).Sign() != 0 {
					vs = append(vs, viol("C04/fixed-settlement-refund", "fixed price auction %d settled: %s got %s%s back although every accepted bid is fully matched", a.ID, short(b), f.P[b], a.PayDenom))
				}
			}
			h.Label("c04:fixed-settlement")
			continue
		}
		r := rec.Ref
		h.Label("c04:batch-settlement")
		p := rec.UsedPriceM // the uniform price this settlement used (published; reference if unpublished)
		if p != nil && new(big.Int).Mod(p, E18).Sign() != 0 {
			h.Label("c04:noninteger-clearing-price")
		}
		for _, b := range r.Bidders {
			if b == a.Auctioneer && len(a.Schedules) == 0 {
				continue // refund and proceeds both arrive from the paying escrow
			}
			refund := zeroIfNil(f.P[b])
			// what actually left the bidder's account for this auction (placements + modifications)
			reserved := flowOf(h.InP, a.ID, b)
			pay := bsub(reserved, refund)
			if pay.Sign() < 0 {
				vs = append(vs, viol("C04/refund-above-reservation", "auction %d: %s reserved %s%s but was refunded %s", a.ID, short(b), reserved, a.PayDenom, refund))
				continue
			}
			got := zeroIfNil(f.S[b])
			if b == a.Auctioneer {
				continue // also receives the unsold remainder
			}
			if got.Sign() == 0 {
				if pay.Sign() != 0 {
					vs = append(vs, viol("C04/loser-not-fully-refunded", "auction %d: %s won nothing, reserved %s%s, refunded only %s", a.ID, short(b), reserved, a.PayDenom, refund))
				}
				continue
			}
			if p == nil {
				continue // coins without any clearing price: C03 / C16 report it
			}
			lo, hi, exact, eligible, _ := PayBounds(rec.Bids, b, rec.PayDenom, p, got)
			if eligible == 0 {
				vs = append(vs, viol("C04/price-above-every-bid", "auction %d cleared at %s: %s received %s coins although none of its bids is priced at or above the clearing price", a.ID, mstr(p), short(b), got))
				continue
			}
			if pay.Cmp(lo) < 0 || pay.Cmp(hi) > 0 {
				vs = append(vs, viol("C04/payment-out-of-bounds", "auction %d cleared at %s: %s received %s coins and paid %s%s (reserved %s, refunded %s); price*quantity bounds are [%s,%s] (exact=%v, matched bids <= %d)",
					a.ID, mstr(p), short(b), got, pay, a.PayDenom, reserved, refund, lo, hi, exact, eligible))
			}
			if pay.Cmp(reserved) > 0 {
				vs = append(vs, viol("C04/paid-more-than-reserved", "auction %d: %s paid %s but reserved %s", a.ID, short(b), pay, reserved))
			}
			if pay.Cmp(lo) == 0 && pay.Cmp(reserved) == 0 {
				h.Label("c04:payment==reservation")
			}
			if refund.Sign() > 0 {
				h.Label("c04:winner-with-refund")
			}
		}
	}
	return vs
}

func (monC04) Final(h *History) []Violation { return nil }

// CfgC04 is the Engine K configuration of C04.
func CfgC04() PropCfg {
	w := DefaultWeights()
	w.CreateFixed, w.CreateBatch = 6, 10
	w.PlaceBid, w.ModifyBid, w.Block = 40, 14, 16
	w.PerturbPct = 4
	w.MaxAuctions = 3
	w.PoorPct = 30 // bidders who cannot pay what a modification would cost
	w.FaultBlock = 3 // a refund that fails must fail the block, not be skipped
	return PropCfg{ID: "C04", Weights: w, MinOps: 12, MaxOps: 60, DrivePct: 95,
		New: func() Monitor { return monC04{} },
		NonTrivial: func(h *History) bool {
			return hasLabel(h, "c04:noninteger-clearing-price", "c04:fixed-paying-rounding", "c04:fixed-selling-rounding")
		},
		Rule: "K: settled histories of both auction types with 18-decimal prices (1/3-type ratios, 1e-18 steps, dust) and modification chains. Batch: per bidder payment = reservation - refund must satisfy p*·a <= payment < p*·a + (matched bids), payment <= reservation, loser refunded in full (exact sum of ceilings when the cap does not bind). Fixed: each accepted bid is charged c and takes floor(c/p) (paying-denominated) or takes s and is charged ceil(p·s) (selling-denominated), rounding always in the auctioneer's favour, exact-rational bounds. D: (price, amount) pairs and order books through ConvertTo*/CalculateBatchAllocation. Non-trivial = a non-integer price with a rounding residue.",
	}
}

// ---------------------------------------------------------------------------------------------
// C05 — nobody receives more than their allowance, their request, or the supply.
// ---------------------------------------------------------------------------------------------
type monC05 struct{}

// rejectedAllowListCall: a keeper-level allow-list call that returned an error must not have changed
// what the allow-list grants - even when the calling module ignores the error and its transaction
// goes on (NoRollback): otherwise the cap "granted" is one the module itself refused.
func rejectedAllowListCall(prop string, st *Step) []Violation {
	if (st.Op.Kind == OpAddAllowed || st.Op.Kind == OpUpdateAllowed) && !st.Res.OK && st.Res.Panic == "" {
		if pre, post := st.Pre.ModuleCanon(true), st.Post.ModuleCanon(true); pre != post {
			return []Violation{viol(prop+"/rejected-allow-list-call-changed-state", "%s returned an error (%s) but the module state changed:\n%s", st.Op.String(), firstLine(st.Res.Err), diffLines(pre, post))}
		}
	}
	return nil
}

func (monC05) Step(h *History, st *Step) []Violation {
	var vs []Violation
	if v := rejectedAllowListCall("C05", st); v != nil {
		return v
	}
	// fixed price: the cumulative quantity of a bidder never exceeds the cap of the moment
	if st.Op.Kind == OpPlaceBid && st.Res.OK {
		for _, b := range st.Post.BidsOf(st.Op.Auction) {
			if st.Pre.Bid(b.Auction, b.ID) != nil {
				continue
			}
			info := h.Bids[bidKey(b.Auction, b.ID)]
			if info == nil || info.CumQty == nil {
				continue
			}
			if info.CapAtAccept == nil {
				vs = append(vs, viol("C05/bid-without-allowance", "auction %d: bid %d of %s accepted without an allow-list entry", b.Auction, b.ID, short(b.Bidder)))
				continue
			}
			if info.CumQty.Cmp(info.CapAtAccept) > 0 {
				vs = append(vs, viol("C05/fixed-cumulative-over-cap", "fixed price auction %d: bid %d brings %s to %s coins, its allowance at that moment is %s", b.Auction, b.ID, short(b.Bidder), info.CumQty, info.CapAtAccept))
			}
			if info.CumQty.Cmp(info.CapAtAccept) == 0 {
				h.Label("c05:fixed-exactly-at-cap")
			}
			if len(st.Pre.BidsOf(b.Auction)) > 0 {
				h.Label("c05:fixed-several-bids")
			}
		}
	}
	for _, tr := range st.Trans {
		if !tr.Settled {
			continue
		}
		a := tr.Pre
		rec := h.Settle[tr.ID]
		f := flowsOfSettlement(st, a)
		total := new(big.Int)
		for to, got := range f.S {
			if to == a.Auctioneer {
				continue
			}
			// everything the bidder has received from this auction's selling escrow so far, not only
			// in this block (a settlement that was interrupted and repeated pays in several blocks)
			if all := flowOf(h.OutS, a.ID, to); all.Cmp(got) > 0 {
				got = all
				h.Label("c05:paid-in-more-than-one-block")
			}
			total.Add(total, got)
			cap := rec.Caps[to]
			if cap == nil {
				vs = append(vs, viol("C05/received-without-allowance", "auction %d: %s received %s%s but is not allow-listed", a.ID, short(to), got, a.SellDenom))
				continue
			}
			// requested: quantity of all its bids at the price everybody pays (batch), or the sum
			// of its accepted quantities (fixed)
			var asked *big.Int
			if a.IsBatch() {
				asked = new(big.Int)
				p := rec.UsedPriceM
				for _, b := range st.Pre.BidsOf(a.ID) {
					if b.Bidder == to && p != nil && b.PriceM.Cmp(p) >= 0 {
						asked.Add(asked, b.QtyAt(a.PayDenom, p))
					}
				}
				if got.Cmp(cap) > 0 {
					vs = append(vs, viol("C05/batch-over-cap", "batch auction %d: %s received %s%s, allowance at settlement is %s", a.ID, short(to), got, a.SellDenom, cap))
				}
				if asked.Cmp(cap) > 0 {
					h.Label("c05:request-exceeds-cap")
				}
			} else {
				asked = zeroIfNil(rec.Alloc[to])
				// fixed price: never more than the allowance as of the moment its bids were accepted
				var maxCap *big.Int
				for _, k := range h.BidKeys {
					if info := h.Bids[k]; info.Auction == a.ID && info.Owner == to && info.CapAtAccept != nil {
						if maxCap == nil || info.CapAtAccept.Cmp(maxCap) > 0 {
							maxCap = info.CapAtAccept
						}
					}
				}
				if maxCap != nil && got.Cmp(maxCap) > 0 {
					vs = append(vs, viol("C05/fixed-over-cap", "fixed price auction %d: %s received %s%s, its allowance never exceeded %s when its bids were accepted", a.ID, short(to), got, a.SellDenom, maxCap))
				}
			}
			if got.Cmp(asked) > 0 {
				vs = append(vs, viol("C05/over-request", "auction %d: %s received %s%s but asked for %s", a.ID, short(to), got, a.SellDenom, asked))
			}
		}
		if total.Cmp(a.SellAmt) > 0 {
			vs = append(vs, viol("C05/oversold", "auction %d distributed %s%s, offered %s", a.ID, total, a.SellDenom, a.SellAmt))
		}
		if a.IsBatch() && rec.Ref.RejectedPrices > 0 {
			h.Label("c05:request-exceeds-supply")
		}
		h.Label("c05:settlement")
	}
	// caps lowered below what was already bid
	if st.Op.Kind == OpUpdateAllowed && st.Res.OK {
		h.Label("c05:cap-updated")
	}
	return vs
}

func (monC05) Final(h *History) []Violation { return nil }

// CfgC05 is the Engine K configuration of C05.
func CfgC05() PropCfg {
	w := DefaultWeights()
	w.PlaceBid, w.ModifyBid, w.UpdateAllowed, w.AddAllowed, w.Block = 40, 14, 12, 10, 16
	w.PerturbPct = 10
	w.FaultBlock = 3 // a settlement interrupted by a failing bank transfer must not pay anybody twice
	return PropCfg{ID: "C05", Weights: w, MinOps: 12, MaxOps: 60, DrivePct: 90,
		New: func() Monitor { return monC05{} },
		NonTrivial: func(h *History) bool {
			return hasLabel(h, "c05:request-exceeds-cap", "c05:request-exceeds-supply", "c05:fixed-exactly-at-cap")
		},
		Rule: "K histories biased to several bids per bidder, modifications above the cap, caps raised/lowered between bids, both auction types. At every accepted fixed-price bid the bidder's cumulative quantity <= the allowance read just before the message; at settlement every bidder's selling-coin receipt <= its allowance (read just before the settling block), <= what its bids ask for at the price paid, and the total <= the offered amount. Non-trivial = some bidder's request exceeds its cap or the supply, or a fixed-price bidder lands exactly on its cap.",
	}
}

var _ = types.ModuleName
