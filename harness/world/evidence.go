package world

import (
	"crypto/sha256"
	"encoding/hex"
	"encoding/json"
	"fmt"
	"os"
	"path/filepath"
	"sort"
	"strings"
	"sync"
	"time"
)

// Collector gathers what one run of a property actually explored. It is written as a shard
// file; the driver merges the shards of all processes into /verif/evidence/<ID>.json.
type Collector struct {
	mu          sync.Mutex
	Prop        string
	Evaluations int
	NonTrivial  map[string]bool
	Samples     []any
	Labels      map[string]int
	Halted      int
	KnownHits   map[string]int
	Excluded    map[string]int
	Violations  int
	Extra       map[string]any
	start       time.Time
	knownPrinted map[string]bool
}

func NewCollector(prop string) *Collector {
	return &Collector{Prop: prop, NonTrivial: map[string]bool{}, Labels: map[string]int{}, KnownHits: map[string]int{}, Excluded: map[string]int{}, Extra: map[string]any{}, start: time.Now(), knownPrinted: map[string]bool{}}
}

// HashOf hashes a canonical rendering of a case.
func HashOf(v any) string {
	b, _ := json.Marshal(v)
	s := sha256.Sum256(b)
	return hex.EncodeToString(s[:12])
}

// Case records one executed case.
func (c *Collector) Case(caseVal any, nontrivial bool, labels map[string]int, sample any) {
	c.mu.Lock()
	defer c.mu.Unlock()
	c.Evaluations++
	for k, v := range labels {
		c.Labels[k] += v
	}
	if nontrivial {
		hsh := HashOf(caseVal)
		if !c.NonTrivial[hsh] {
			c.NonTrivial[hsh] = true
			if len(c.Samples) < 3 && sample != nil {
				c.Samples = append(c.Samples, sample)
			}
		}
	}
}

func (c *Collector) AddLabel(k string, n int) {
	c.mu.Lock()
	c.Labels[k] += n
	c.mu.Unlock()
}

// Shard is the on-disk form.
type Shard struct {
	Prop        string         `json:"prop"`
	Evaluations int            `json:"evaluations"`
	Hashes      []string       `json:"hashes"`
	Samples     []any          `json:"samples"`
	Labels      map[string]int `json:"labels"`
	Halted      int            `json:"halted_histories"`
	KnownHits   map[string]int `json:"known_finding_hits"`
	Excluded    map[string]int `json:"excluded_by_construction"`
	Violations  int            `json:"violations"`
	WallS       float64        `json:"wall_s"`
	Extra       map[string]any `json:"extra,omitempty"`
}

// Write writes the shard to path (no-op when path is empty).
func (c *Collector) Write(path string) {
	if path == "" {
		return
	}
	c.mu.Lock()
	defer c.mu.Unlock()
	sh := Shard{Prop: c.Prop, Evaluations: c.Evaluations, Samples: c.Samples, Labels: c.Labels, Halted: c.Halted, KnownHits: c.KnownHits, Excluded: c.Excluded, Violations: c.Violations, WallS: time.Since(c.start).Seconds(), Extra: c.Extra}
	for h := range c.NonTrivial {
		sh.Hashes = append(sh.Hashes, h)
	}
	sort.Strings(sh.Hashes)
	b, _ := json.MarshalIndent(sh, "", " ")
	_ = os.MkdirAll(filepath.Dir(path), 0o755)
	if err := os.WriteFile(path, b, 0o644); err != nil {
		fmt.Fprintln(os.Stderr, "cannot write evidence shard:", err)
	}
}

// ---- known findings --------------------------------------------------------------------------

// Finding is an entry of /verif/known_findings.json.
type Finding struct {
	Property  string `json:"property"`
	Status    string `json:"status"` // known | fixed
	Signature string `json:"signature"`
	What      string `json:"what"`
	Commit    string `json:"commit,omitempty"`
}

var (
	findingsOnce sync.Once
	findings     []Finding
)

// KnownFindings loads the committed list (path from VERIF_KNOWN, default ../known_findings.json).
func KnownFindings() []Finding {
	findingsOnce.Do(func() {
		p := os.Getenv("VERIF_KNOWN")
		if p == "" {
			p = "/verif/known_findings.json"
		}
		b, err := os.ReadFile(p)
		if err != nil {
			return
		}
		var doc struct {
			Findings []Finding `json:"findings"`
		}
		if json.Unmarshal(b, &doc) == nil {
			findings = doc.Findings
		}
	})
	return findings
}

// IsKnown reports whether a violation signature is listed as a known (not fixed) finding.
func IsKnown(prop, sig string) (Finding, bool) {
	for _, f := range KnownFindings() {
		if f.Status == "known" && f.Property == prop && (f.Signature == sig || (strings.HasSuffix(f.Signature, "*") && strings.HasPrefix(sig, strings.TrimSuffix(f.Signature, "*")))) {
			return f, true
		}
	}
	return Finding{}, false
}

// Known registers a hit of a known finding and prints its line once per process.
func (c *Collector) Known(f Finding) {
	c.mu.Lock()
	defer c.mu.Unlock()
	c.KnownHits[f.Signature]++
	if !c.knownPrinted[f.Signature] {
		c.knownPrinted[f.Signature] = true
		fmt.Printf("KNOWN-FINDING: property=%s %s [%s]\n", f.Property, f.What, f.Signature)
	}
}

// ---- replay files ----------------------------------------------------------------------------

// Replay is the content of a replay file.
type Replay struct {
	Property  string          `json:"property"`
	Engine    string          `json:"engine"`
	Signature string          `json:"signature"`
	Message   string          `json:"message"`
	Ops       []Op            `json:"ops,omitempty"`
	Case      json.RawMessage `json:"case,omitempty"`
}

// WriteReplay writes (overwrites) the replay file.
func WriteReplay(path string, r Replay) {
	if path == "" {
		return
	}
	b, _ := json.MarshalIndent(r, "", " ")
	_ = os.MkdirAll(filepath.Dir(path), 0o755)
	_ = os.WriteFile(path, b, 0o644)
}

// ReadReplay loads a replay file.
func ReadReplay(path string) (Replay, error) {
	var r Replay
	b, err := os.ReadFile(path)
	if err != nil {
		return r, err
	}
	err = json.Unmarshal(b, &r)
	return r, err
}

// AddViolation counts a violation.
func (c *Collector) AddViolation() {
	c.mu.Lock()
	c.Violations++
	c.mu.Unlock()
}
