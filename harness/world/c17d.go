package world

import (
	"encoding/json"
	"os"
	"sort"
	"strings"
	"testing"

	"cosmossdk.io/depinject"
	"cosmossdk.io/log"
	"cosmossdk.io/math"
	"github.com/cosmos/cosmos-sdk/client/flags"
	simtestutil "github.com/cosmos/cosmos-sdk/testutil/sims"
	capabilitykeeper "github.com/cosmos/ibc-go/modules/capability/keeper"
	ibckeeper "github.com/cosmos/ibc-go/v8/modules/core/keeper"
	"pgregory.net/rapid"

	"github.com/tendermint/fundraising/app"
	"github.com/tendermint/fundraising/x/fundraising/keeper"
	"github.com/tendermint/fundraising/x/fundraising/types"
)

// C17, app-wiring registration: hook providers supplied to the dependency-injection container
// (the map InvokeSetHooks asks for) must end up registered on the keeper the container hands out -
// the one the application stores and gives to other modules - each exactly once.
func RunC17D(t *testing.T) {
	const prop = "C17"
	col := GlobalCollector(prop)
	col.AddRule("App-wiring registration: a generated set of 1..6 named hook providers is supplied to the dependency-injection container together with the application configuration; on the keeper the container hands out, a hook dispatch must reach every provider exactly once, in the documented (lexical) order.")
	b := SharedBase()
	names := []string{"alpha", "bank", "dex", "farming", "gov", "liquidity", "mint", "zeta"}
	allow := caseLimiter(0)
	body := func(rt *rapid.T, perm []string) {
		if rt != nil {
			if !allow() {
				return
			}
			n := 1 + uni(rt, "providers", 6)
			perm = rapid.Permutation(names).Draw(rt, "names")[:n]
		}
		var calls []hookCall
		var out []string
		plan := hookPlan{}
		var veto bool
		kk := newBareKeeper(b)
		m := map[string]types.FundraisingHooks{}
		for _, nm := range perm {
			m[nm] = &orderHook{recorder: recorder{k: kk, b: b, calls: &calls, plan: &plan, seen: map[string]int{}, veto: &veto}, name: nm, out: &out}
		}
		var fk keeper.Keeper
		cfg := depinject.Configs(app.AppConfig(), depinject.Supply(
			simtestutil.AppOptionsMap{flags.FlagHome: app.DefaultNodeHome},
			log.NewNopLogger(),
			func() *ibckeeper.Keeper { return nil },
			func(string) capabilitykeeper.ScopedKeeper { return capabilitykeeper.ScopedKeeper{} },
			m,
		))
		if err := depinject.Inject(cfg, &fk); err != nil {
			panic(err)
		}
		if err := fk.BeforeAllowedBidderUpdated(b.Branch(), 0, Addrs[0], math.NewInt(1)); err != nil {
			panic(err)
		}
		want := append([]string{}, perm...)
		sort.Strings(want)
		if strings.Join(out, ",") != strings.Join(want, ",") {
			sig := "C17/wiring/supplied-providers-not-registered"
			if len(out) > 0 {
				sig = "C17/wiring/supplied-providers-dispatch"
			}
			v := viol(sig, "hook providers %v were supplied to the application wiring; a hook dispatched on the keeper the wiring hands out reached [%s], expected each provider once in lexical order [%s]", perm, strings.Join(out, ","), strings.Join(want, ","))
			if f, ok := IsKnown(prop, v.Sig); ok {
				col.Known(f)
			} else {
				raw, _ := json.Marshal(perm)
				WriteReplay(os.Getenv("VERIF_REPLAY_OUT"), Replay{Property: prop, Engine: "D", Signature: v.Sig, Message: v.Msg, Case: raw})
				col.AddViolation()
				if rt != nil {
					rt.Fatalf("VIOLATION %s [%s]\n%s", prop, v.Sig, v.Msg)
				} else {
					t.Errorf("VIOLATION %s [%s]\n%s", prop, v.Sig, v.Msg)
				}
				return
			}
		}
		if rt != nil {
			col.Case(map[string]any{"engine": "D", "providers": perm}, len(perm) >= 2, map[string]int{"c17d:wiring-cases": 1}, map[string]any{"engine": "D", "providers": perm})
		}
	}
	if p := os.Getenv("VERIF_REPLAY_FILE"); p != "" {
		r, err := ReadReplay(p)
		if err != nil {
			t.Fatal(err)
		}
		if r.Engine == "D" {
			var perm []string
			must(json.Unmarshal(r.Case, &perm))
			body(nil, perm)
		}
		return
	}
	rapid.Check(t, func(rt *rapid.T) { body(rt, nil) })
}
