// Package world holds the generators, operation vocabulary, executors, snapshots and reference
// models shared by every property check (see /verif/DESIGN.md section 2).
package world

import (
	"fmt"
	"math/big"
	"time"

	"cosmossdk.io/math"
	"github.com/cosmos/cosmos-sdk/crypto/keys/secp256k1"
	sdk "github.com/cosmos/cosmos-sdk/types"
	authtypes "github.com/cosmos/cosmos-sdk/x/auth/types"
	distrtypes "github.com/cosmos/cosmos-sdk/x/distribution/types"
	govtypes "github.com/cosmos/cosmos-sdk/x/gov/types"
	minttypes "github.com/cosmos/cosmos-sdk/x/mint/types"

	"github.com/tendermint/fundraising/app"
	"github.com/tendermint/fundraising/testutil/testutil/simapp"
	"github.com/tendermint/fundraising/x/fundraising/keeper"
	"github.com/tendermint/fundraising/x/fundraising/types"
)

// NumAccounts is the number of fixed, deterministic user accounts.
// 0,1,2 act as auctioneers (and may bid), 3..6 are pure bidders, 7 is the outsider
// (never allow-listed; third-party sender).
const NumAccounts = 8

// Outsider is the index of the account that is never allow-listed.
const Outsider = NumAccounts - 1

// NumCrowd further accounts (indices NumAccounts..NumAccounts+NumCrowd-1) exist and are funded; the
// generator uses them only for crowded order books (bid bursts), so that an auction can have more
// distinct bidders than the eight regular accounts provide (more than 16 in one settlement).
const NumCrowd = 24

var (
	// T0 is the origin of generated time.
	T0 = time.Date(2030, 1, 1, 0, 0, 0, 0, time.UTC)

	SellDenoms = []string{"sella", "sellb"}
	PayDenoms  = []string{"paya", "payb"}
	FeeDenom   = "stake"
	// AllDenoms are the denominations whose conservation is tracked.
	AllDenoms = []string{"sella", "sellb", "paya", "payb", "stake", "other"}

	privKeys []*secp256k1.PrivKey
	// Addrs are the fixed user addresses.
	Addrs []sdk.AccAddress
)

func init() {
	for i := 0; i < NumAccounts+NumCrowd; i++ {
		pk := secp256k1.GenPrivKeyFromSecret([]byte(fmt.Sprintf("verif-acc-%d", i)))
		privKeys = append(privKeys, pk)
		Addrs = append(Addrs, sdk.AccAddress(pk.PubKey().Address()))
	}
}

// PrivKey returns the key of user account i.
func PrivKey(i int) *secp256k1.PrivKey { return privKeys[i] }

// AddrIndex returns the account index of a bech32 address or -1.
func AddrIndex(bech string) int {
	bech = CanonAddr(bech)
	for i, a := range Addrs {
		if a.String() == bech {
			return i
		}
	}
	return -1
}

// Base is one application instance with a funded post-genesis context. Every generated case
// runs on a CacheContext branch of Ctx and is discarded afterwards (Engine K).
type Base struct {
	App *app.App
	Ctx sdk.Context
	K   keeper.Keeper
	// DistrAddr is the distribution module account (holds the community pool).
	DistrAddr sdk.AccAddress
	GovAddr   string
}

// Generous is the default funding per denomination: 2^215, above even the extreme amount class
// (2^200) and far above the main amount domain (<= 1e33).
var Generous = new(big.Int).Lsh(big.NewInt(1), 215)

// NewBase builds an application (MemDB, faux-merkle) and funds the fixed accounts.
func NewBase() (*Base, error) {
	a, err := simapp.New("verif-chain")
	if err != nil {
		return nil, err
	}
	ctx := a.BaseApp.NewContext(false).WithBlockTime(T0).WithBlockHeight(1)
	b := &Base{App: a, Ctx: ctx, K: a.FundraisingKeeper}
	b.DistrAddr = authtypes.NewModuleAddress(distrtypes.ModuleName)
	// the documented default authority: the x/gov module account (app_config.go sets no override);
	// deliberately NOT read back from the keeper
	b.GovAddr = authtypes.NewModuleAddress(govtypes.ModuleName).String()
	for i := 0; i < len(Addrs); i++ {
		coins := sdk.Coins{}
		for _, d := range AllDenoms {
			coins = coins.Add(sdk.NewCoin(d, math.NewIntFromBigInt(Generous)))
		}
		if err := b.Mint(ctx, Addrs[i], coins); err != nil {
			return nil, err
		}
	}
	return b, nil
}

// Mint creates coins for addr (used only during set-up and by direct construction).
func (b *Base) Mint(ctx sdk.Context, addr sdk.AccAddress, coins sdk.Coins) error {
	if coins.IsZero() {
		return nil
	}
	if err := b.App.BankKeeper.MintCoins(ctx, minttypes.ModuleName, coins); err != nil {
		return err
	}
	return b.App.BankKeeper.SendCoinsFromModuleToAccount(ctx, minttypes.ModuleName, addr, coins)
}

// Branch returns a fresh cache branch of the base context.
func (b *Base) Branch() sdk.Context {
	c, _ := b.Ctx.CacheContext()
	return c.WithEventManager(sdk.NewEventManager())
}

// SetParams writes module parameters directly (the case's "genesis").
func (b *Base) SetParams(ctx sdk.Context, p types.Params) error {
	return b.K.Params.Set(ctx, p)
}
