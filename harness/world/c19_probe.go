package world

import (
	"cosmossdk.io/collections"
	sdk "github.com/cosmos/cosmos-sdk/types"
)

// isolationProbe is the local metamorphic part of C19 ("a bidder's allowance and bids in one
// auction never affect what the same bidder may do in another"). Before a bid or a bid
// modification on auction X by a bidder who also holds bids or allow-list entries in other
// auctions is executed, the same message is executed on two discarded branches of the current
// state: one untouched, one from which the bidder's bids and allow-list entries of every OTHER
// auction have been deleted (balances, escrows and auction X are left as they are). The decision,
// everything that belongs to auction X, and the bidder's balances must come out identical.
func isolationProbe(h *History, o Op) []Violation {
	if o.Kind != OpPlaceBid && o.Kind != OpModifyBid {
		return nil
	}
	pre := h.lastPost(nil)
	if pre == nil || pre.Auction(o.Auction) == nil || o.SignerStr != "" {
		return nil
	}
	bidder := o.SignerAddr()
	acc, err := sdk.AccAddressFromBech32(bidder)
	if err != nil {
		return nil
	}
	type bk struct{ a, id uint64 }
	var otherBids []bk
	var otherLists []uint64
	for _, b := range pre.Bids {
		if b.Bidder == bidder && b.Auction != o.Auction {
			otherBids = append(otherBids, bk{b.Auction, b.ID})
		}
	}
	for _, ab := range pre.Allowed {
		if ab.Bidder == bidder && ab.Auction != o.Auction {
			otherLists = append(otherLists, ab.Auction)
		}
	}
	if len(otherBids) == 0 && len(otherLists) == 0 {
		return nil
	}
	w := h.W
	run := func(strip bool) (Result, string, string) {
		cc, _ := w.Ctx.CacheContext()
		cc = cc.WithEventManager(sdk.NewEventManager())
		if strip {
			for _, k := range otherBids {
				must(w.B.K.Bid.Remove(cc, collections.Join(k.a, k.id)))
			}
			for _, a := range otherLists {
				must(w.B.K.AllowedBidder.Remove(cc, collections.Join(a, acc)))
			}
		}
		w2 := &World{B: w.B, Ctx: cc, Now: w.Now, Height: w.Height}
		res := w2.Apply(o)
		s := TakeSnap(w.B, w2.Ctx)
		return res, s.AuctionCanon(o.Auction), s.balCanon(bidder)
	}
	r1, c1, b1 := run(false)
	r2, c2, b2 := run(true)
	h.Label("c19:isolation-probes")
	if len(otherBids) > 0 {
		h.Label("c19:isolation-probe-with-bids-elsewhere")
	}
	if !r1.OK {
		h.Label("c19:isolation-probe-of-rejected-op")
	}
	if r1.OK != r2.OK {
		return []Violation{viol("C19/non-interference/other-auction-records", "%s by %s on auction %d is %s (%s) with the bidder's %d bids and %d allow-list entries in other auctions present, but %s (%s) once they are deleted", o.String(), short(bidder), o.Auction, okStr(r1.OK), firstLine(r1.Err), len(otherBids), len(otherLists), okStr(r2.OK), firstLine(r2.Err))}
	}
	if c1 != c2 || b1 != b2 {
		return []Violation{viol("C19/non-interference/other-auction-records", "%s by %s on auction %d has different effects with and without the bidder's records in other auctions:\n%s%s", o.String(), short(bidder), o.Auction, diffLines(c1, c2), diffLines(b1, b2))}
	}
	return nil
}
