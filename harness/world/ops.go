package world

import (
	"encoding/json"
	"fmt"
	"math/big"
	"runtime/debug"
	"strings"
	"time"

	"cosmossdk.io/core/appmodule"
	"cosmossdk.io/math"
	abci "github.com/cometbft/cometbft/abci/types"
	sdk "github.com/cosmos/cosmos-sdk/types"

	"github.com/tendermint/fundraising/x/fundraising/keeper"
	"github.com/tendermint/fundraising/x/fundraising/types"
)

// Operation kinds.
const (
	OpCreateFixed   = "createFixed"
	OpCreateBatch   = "createBatch"
	OpCancel        = "cancel"
	OpPlaceBid      = "placeBid"
	OpModifyBid     = "modifyBid"
	OpAddAllowed    = "addAllowed"    // keeper API (other modules)
	OpUpdateAllowed = "updateAllowed" // keeper API (other modules)
	OpMsgAddAllowed = "msgAddAllowed" // the transaction message
	OpUpdateParams  = "updateParams"
	OpDonate        = "donate" // third-party bank send to an escrow
	OpBlock         = "block"
	// OpReimport exports the module genesis, empties the module store and imports the genesis
	// again (what a chain restart from an exported genesis does to the module).
	OpReimport = "reimport"
	// OpFaultBlock is a block during which the FailAt-th bank transfer fails (fault injection). On
	// correct code block processing reports the failure and the chain stops there.
	OpFaultBlock = "faultBlock"
	// OpHooks (prologue, C17 only) routes every later operation of the history through a keeper
	// that has Listeners instrumented hook listeners registered; listener FaultPos returns an error
	// from the FaultOcc-th invocation of FaultMethod ("" = never).
	OpHooks = "hooks"
)

// Sched is one vesting schedule entry of a create message.
type Sched struct {
	Release time.Time `json:"release"`
	Weight  string    `json:"weight"`
}

// Op is one concrete operation of a history. It is plain data so that a history can be
// written as a replay file and re-executed without the generator.
type Op struct {
	Kind string `json:"kind"`
	// Signer is the account index of the signer; SignerStr, when set, is used verbatim instead.
	Signer    int    `json:"signer"`
	SignerStr string `json:"signer_str,omitempty"`
	Auction   uint64 `json:"auction,omitempty"`

	// create*
	StartPrice string    `json:"start_price,omitempty"`
	MinPrice   string    `json:"min_price,omitempty"`
	Rate       string    `json:"rate,omitempty"`
	SellDenom  string    `json:"sell_denom,omitempty"`
	SellAmount string    `json:"sell_amount,omitempty"`
	PayDenom   string    `json:"pay_denom,omitempty"`
	Schedules  []Sched   `json:"schedules,omitempty"`
	MaxRounds  uint32    `json:"max_rounds,omitempty"`
	Start      time.Time `json:"start,omitempty"`
	End        time.Time `json:"end,omitempty"`

	// bids
	BidType    int32  `json:"bid_type,omitempty"`
	Price      string `json:"price,omitempty"`
	CoinDenom  string `json:"coin_denom,omitempty"`
	CoinAmount string `json:"coin_amount,omitempty"`
	BidID      uint64 `json:"bid_id,omitempty"`

	// allow-list
	Bidder    int    `json:"bidder,omitempty"`
	BidderStr string `json:"bidder_str,omitempty"`
	MaxBid    string `json:"max_bid,omitempty"`

	// donate
	To     string `json:"to,omitempty"` // selling | paying | vesting
	Denom  string `json:"denom,omitempty"`
	Amount string `json:"amount,omitempty"`

	// block
	Time   time.Time `json:"time,omitempty"`
	FailAt int       `json:"fail_at,omitempty"` // faultBlock: index of the failing transfer

	// updateParams
	CreationFee    string `json:"creation_fee,omitempty"`
	BidFee         string `json:"bid_fee,omitempty"`
	ExtendedPeriod uint32 `json:"extended_period,omitempty"`
	RawFees        bool   `json:"raw_fees,omitempty"` // build fee coins without sorting/validation

	// BankFault > 0 (message operations): the BankFault-th bank transfer the message makes fails
	// (injected through the bank send restriction). A correct handler returns the error.
	BankFault int `json:"bank_fault,omitempty"`
	// NoRollback (keeper-level allow-list calls): the calling module ignores the returned error, so
	// whatever the failed call has written stays (a transaction would discard it).
	NoRollback bool `json:"no_rollback,omitempty"`

	// hooks
	Listeners   int    `json:"listeners,omitempty"`
	FaultMethod string `json:"fault_method,omitempty"`
	FaultPos    int    `json:"fault_pos,omitempty"`
	FaultOcc    int    `json:"fault_occ,omitempty"`
}

func (o Op) String() string {
	b, _ := json.Marshal(o)
	s := string(b)
	s = strings.ReplaceAll(s, `"start":"0001-01-01T00:00:00Z",`, "")
	s = strings.ReplaceAll(s, `"end":"0001-01-01T00:00:00Z",`, "")
	s = strings.ReplaceAll(s, `,"time":"0001-01-01T00:00:00Z"`, "")
	s = strings.ReplaceAll(s, `"time":"0001-01-01T00:00:00Z",`, "")
	return s
}

// CanonAddr returns the canonical spelling of an account address: bech32 allows an address to be
// written all in lower case or all in upper case, both denote the same account. Strings that are
// not valid addresses are returned unchanged.
func CanonAddr(s string) string {
	if s == "" {
		return s
	}
	if a, err := sdk.AccAddressFromBech32(s); err == nil {
		return a.String()
	}
	return s
}

// signerRaw is the signer address exactly as it is written into the message.
func (o Op) signerRaw() string {
	if o.SignerStr != "" {
		return o.SignerStr
	}
	if o.Signer >= 0 && o.Signer < len(Addrs) {
		return Addrs[o.Signer].String()
	}
	return ""
}

// bidderRaw is the bidder address of an allow-list operation exactly as passed.
func (o Op) bidderRaw() string {
	if o.BidderStr != "" {
		return o.BidderStr
	}
	if o.Bidder >= 0 && o.Bidder < len(Addrs) {
		return Addrs[o.Bidder].String()
	}
	return ""
}

// SignerAddr returns the account (canonical address) the operation is signed with.
func (o Op) SignerAddr() string { return CanonAddr(o.signerRaw()) }

// BidderAddr returns the account (canonical address) of the bidder of an allow-list operation.
func (o Op) BidderAddr() string { return CanonAddr(o.bidderRaw()) }

// Result is the outcome of applying one operation to the implementation.
type Result struct {
	OK    bool   // operation accepted (messages) / block hook returned nil
	Err   string // error text when not OK
	Panic string // recovered panic (with stack) when the implementation panicked
	// FaultHit describes the transfer that an injected fault made fail (faultBlock only).
	FaultHit string
	// HookCalls are the listener invocations recorded during the operation and VetoIssued tells
	// whether the planned listener failure happened during it (histories with OpHooks only).
	HookCalls  []hookCall
	VetoIssued bool
}

func dec(s string) math.LegacyDec {
	if s == "" {
		return math.LegacyZeroDec()
	}
	d, err := math.LegacyNewDecFromStr(s)
	if err != nil {
		panic(fmt.Sprintf("harness: bad decimal %q: %v", s, err))
	}
	return d
}

func bigOf(s string) *big.Int {
	if s == "" {
		return new(big.Int)
	}
	b, ok := new(big.Int).SetString(s, 10)
	if !ok {
		panic(fmt.Sprintf("harness: bad integer %q", s))
	}
	return b
}

// rawCoin builds a coin without the validation of sdk.NewCoin (negative amounts / odd denoms
// are wire-representable and must be rejected by the module, not by the harness).
func rawCoin(denom, amount string) sdk.Coin {
	return sdk.Coin{Denom: denom, Amount: math.NewIntFromBigInt(bigOf(amount))}
}

// ParseCoins parses "10stake,5paya" (empty string => empty coins). With raw it keeps the order
// and does not validate.
func ParseCoins(s string, raw bool) sdk.Coins {
	if s == "" {
		return sdk.Coins{}
	}
	var out sdk.Coins
	for _, part := range strings.Split(s, ",") {
		i := 0
		for i < len(part) && (part[i] == '-' || (part[i] >= '0' && part[i] <= '9')) {
			i++
		}
		out = append(out, rawCoin(part[i:], part[:i]))
	}
	if !raw {
		out = sdk.NewCoins(out...)
	}
	return out
}

func (o Op) schedules() []types.VestingSchedule {
	var vs []types.VestingSchedule
	for _, s := range o.Schedules {
		vs = append(vs, types.VestingSchedule{ReleaseTime: s.Release, Weight: dec(s.Weight)})
	}
	return vs
}

// Msg builds the sdk message of a message operation (nil for non-message operations).
func (o Op) Msg(govAddr string) sdk.Msg {
	switch o.Kind {
	case OpCreateFixed:
		return &types.MsgCreateFixedPriceAuction{
			Auctioneer:       o.signerRaw(),
			StartPrice:       dec(o.StartPrice),
			SellingCoin:      rawCoin(o.SellDenom, o.SellAmount),
			PayingCoinDenom:  o.PayDenom,
			VestingSchedules: o.schedules(),
			StartTime:        o.Start,
			EndTime:          o.End,
		}
	case OpCreateBatch:
		return &types.MsgCreateBatchAuction{
			Auctioneer:        o.signerRaw(),
			StartPrice:        dec(o.StartPrice),
			MinBidPrice:       dec(o.MinPrice),
			SellingCoin:       rawCoin(o.SellDenom, o.SellAmount),
			PayingCoinDenom:   o.PayDenom,
			VestingSchedules:  o.schedules(),
			MaxExtendedRound:  o.MaxRounds,
			ExtendedRoundRate: dec(o.Rate),
			StartTime:         o.Start,
			EndTime:           o.End,
		}
	case OpCancel:
		return &types.MsgCancelAuction{Auctioneer: o.signerRaw(), AuctionId: o.Auction}
	case OpPlaceBid:
		return &types.MsgPlaceBid{
			AuctionId: o.Auction,
			Bidder:    o.signerRaw(),
			BidType:   types.BidType(o.BidType),
			Price:     dec(o.Price),
			Coin:      rawCoin(o.CoinDenom, o.CoinAmount),
		}
	case OpModifyBid:
		return &types.MsgModifyBid{
			AuctionId: o.Auction,
			Bidder:    o.signerRaw(),
			BidId:     o.BidID,
			Price:     dec(o.Price),
			Coin:      rawCoin(o.CoinDenom, o.CoinAmount),
		}
	case OpMsgAddAllowed:
		return &types.MsgAddAllowedBidder{
			AuctionId: o.Auction,
			AllowedBidder: types.AllowedBidder{
				AuctionId:    o.Auction,
				Bidder:       o.signerRaw(),
				MaxBidAmount: math.NewIntFromBigInt(bigOf(o.MaxBid)),
			},
		}
	case OpUpdateParams:
		auth := o.SignerStr
		if auth == "" {
			if o.Signer < 0 {
				auth = govAddr
			} else {
				auth = o.signerRaw()
			}
		}
		return &types.MsgUpdateParams{
			Authority: auth,
			Params: types.Params{
				AuctionCreationFee: ParseCoins(o.CreationFee, o.RawFees),
				PlaceBidFee:        ParseCoins(o.BidFee, o.RawFees),
				ExtendedPeriod:     o.ExtendedPeriod,
			},
		}
	}
	return nil
}

// SinkAddr receives the coins taken away from "poor" accounts in a case prologue.
var SinkAddr = sdk.AccAddress([]byte("verif-sink-address--"))

// EscrowAddr returns the escrow address of an auction by role.
func EscrowAddr(role string, auction uint64) sdk.AccAddress {
	switch role {
	case "selling":
		return types.SellingReserveAddress(auction)
	case "paying":
		return types.PayingReserveAddress(auction)
	default:
		return types.VestingReserveAddress(auction)
	}
}

// World is one history being executed on a branch of a Base.
type World struct {
	B      *Base
	Ctx    sdk.Context
	Now    time.Time
	Height int64
	Halted bool // a block hook failed: a real chain would have stopped here
	Log    []Op
	// Rig, when set (OpHooks), is the keeper with instrumented listeners every operation goes through.
	Rig *HookRig
	// SameTimeBlocks allows several blocks with the same time (what an application does when
	// transactions arrive in several blocks before the clock moves on).
	SameTimeBlocks bool
}

func (w *World) keeper() *keeper.Keeper {
	if w.Rig != nil {
		return w.Rig.K
	}
	return &w.B.K
}

// NewWorld starts a history on a fresh branch.
func NewWorld(b *Base) *World {
	return &World{B: b, Ctx: b.Branch(), Now: T0, Height: 1}
}

func recoverTo(res *Result) {
	if r := recover(); r != nil {
		res.OK = false
		res.Panic = fmt.Sprintf("%v\n%s", r, debug.Stack())
		res.Err = fmt.Sprintf("panic: %v", r)
	}
}

// Apply executes one operation against the implementation. State changes are committed to the
// history's branch only when the operation succeeds, which is what a transaction does.
func (w *World) Apply(o Op) (res Result) {
	w.Log = append(w.Log, o)
	if w.Rig != nil {
		w.Rig.calls, w.Rig.veto = nil, false
		defer func() {
			res.HookCalls = append([]hookCall(nil), w.Rig.calls...)
			res.VetoIssued = w.Rig.veto
		}()
	}
	switch o.Kind {
	case OpHooks:
		w.Rig = newHookRig(w.B, o)
		return Result{OK: true}
	case OpBlock:
		return w.applyBlock(o)
	case OpFaultBlock:
		bankFault = faultPlan{active: true, failAt: o.FailAt}
		res = w.applyBlock(o)
		hit := bankFault.hit
		bankFault = faultPlan{}
		if hit == "" && !res.OK {
			return res
		}
		if hit != "" {
			res.FaultHit = hit
		}
		return res
	case OpAddAllowed:
		cc, write := w.Ctx.CacheContext()
		if o.NoRollback {
			cc, write = w.Ctx, func() {}
		}
		func() {
			defer recoverTo(&res)
			err := w.keeper().AddAllowedBidders(cc, o.Auction, []types.AllowedBidder{{
				AuctionId:    o.Auction,
				Bidder:       o.bidderRaw(),
				MaxBidAmount: math.NewIntFromBigInt(bigOf(o.MaxBid)),
			}})
			if err != nil {
				res.Err = err.Error()
				return
			}
			res.OK = true
		}()
		if res.OK {
			write()
		}
		return res
	case OpUpdateAllowed:
		cc, write := w.Ctx.CacheContext()
		if o.NoRollback {
			cc, write = w.Ctx, func() {}
		}
		func() {
			defer recoverTo(&res)
			addr, err := sdk.AccAddressFromBech32(o.bidderRaw())
			if err != nil {
				res.Err = err.Error()
				return
			}
			if err := w.keeper().UpdateAllowedBidder(cc, o.Auction, addr, math.NewIntFromBigInt(bigOf(o.MaxBid))); err != nil {
				res.Err = err.Error()
				return
			}
			res.OK = true
		}()
		if res.OK {
			write()
		}
		return res
	case OpReimport:
		cc, write := w.Ctx.CacheContext()
		func() {
			defer recoverTo(&res)
			gm, ok := w.B.App.ModuleManager.Modules[types.ModuleName].(genesisModule)
			if !ok {
				res.Err = "module has no genesis"
				return
			}
			cdc := w.B.App.AppCodec()
			raw := gm.ExportGenesis(cc, cdc)
			st := cc.KVStore(w.B.App.GetKey(types.StoreKey))
			var keys [][]byte
			it := st.Iterator(nil, nil)
			for ; it.Valid(); it.Next() {
				keys = append(keys, append([]byte{}, it.Key()...))
			}
			it.Close()
			for _, k := range keys {
				st.Delete(k)
			}
			gm.InitGenesis(cc, cdc, raw)
			res.OK = true
		}()
		if res.OK {
			write()
		}
		return res
	case OpSetBalance:
		func() {
			defer recoverTo(&res)
			bk := w.B.App.BankKeeper
			have := bk.GetBalance(w.Ctx, Addrs[o.Signer], o.Denom).Amount
			want := math.NewIntFromBigInt(bigOf(o.Amount))
			var err error
			if have.GT(want) {
				err = bk.SendCoins(w.Ctx, Addrs[o.Signer], SinkAddr, sdk.NewCoins(sdk.NewCoin(o.Denom, have.Sub(want))))
			} else if have.LT(want) {
				err = bk.SendCoins(w.Ctx, SinkAddr, Addrs[o.Signer], sdk.NewCoins(sdk.NewCoin(o.Denom, want.Sub(have))))
			}
			if err != nil {
				res.Err = err.Error()
				return
			}
			res.OK = true
		}()
		return res
	case OpDonate:
		cc, write := w.Ctx.CacheContext()
		func() {
			defer recoverTo(&res)
			coins := sdk.NewCoins(sdk.NewCoin(o.Denom, math.NewIntFromBigInt(bigOf(o.Amount))))
			if err := w.B.App.BankKeeper.SendCoins(cc, Addrs[o.Signer], EscrowAddr(o.To, o.Auction), coins); err != nil {
				res.Err = err.Error()
				return
			}
			res.OK = true
		}()
		if res.OK {
			write()
		}
		return res
	default:
		return w.applyMsg(o)
	}
}

func (w *World) applyMsg(o Op) (res Result) {
	msg := o.Msg(w.B.GovAddr)
	if msg == nil {
		panic("harness: unknown op kind " + o.Kind)
	}
	h := w.B.App.MsgServiceRouter().Handler(msg)
	if w.Rig != nil {
		h = w.Rig.handle
	}
	if h == nil {
		// the module's message service is not registered with the application: no transaction
		// carrying this message can be executed
		return Result{Err: "the application has no handler for " + sdk.MsgTypeURL(msg)}
	}
	cc, write := w.Ctx.CacheContext()
	if o.BankFault > 0 {
		bankFault = faultPlan{active: true, failAt: o.BankFault - 1}
		defer func() {
			res.FaultHit = bankFault.hit
			bankFault = faultPlan{}
		}()
	}
	func() {
		defer recoverTo(&res)
		r, err := h(cc, msg)
		if err != nil {
			res.Err = err.Error()
			return
		}
		res.OK = true
		// the router runs the handler with its own event manager and returns the events
		if r != nil {
			for _, e := range r.GetEvents() {
				ev := sdk.Event{Type: e.Type}
				for _, a := range e.Attributes {
					ev.Attributes = append(ev.Attributes, abci.EventAttribute{Key: a.Key, Value: a.Value})
				}
				w.Ctx.EventManager().EmitEvent(ev)
			}
		}
	}()
	if res.OK {
		write()
	}
	return res
}

func (w *World) applyBlock(o Op) (res Result) {
	if !o.Time.After(w.Now) && !(w.SameTimeBlocks && o.Time.Equal(w.Now)) {
		panic("harness: block time must increase")
	}
	w.Now = o.Time
	w.Height++
	w.Ctx = w.Ctx.WithBlockTime(o.Time).WithBlockHeight(w.Height)
	mod, ok := w.B.App.ModuleManager.Modules[types.ModuleName].(appmodule.HasBeginBlocker)
	if !ok {
		return Result{Err: "fundraising module has no BeginBlock"}
	}
	cc, write := w.Ctx.CacheContext()
	func() {
		defer recoverTo(&res)
		var err error
		if w.Rig != nil {
			err = w.Rig.K.BeginBlocker(cc)
		} else {
			err = mod.BeginBlock(cc)
		}
		if err != nil {
			res.Err = err.Error()
			return
		}
		res.OK = true
	}()
	if res.OK {
		write()
	} else {
		w.Halted = true
	}
	return res
}
