package world

import (
	"encoding/json"
	"fmt"
	"os"
	"testing"

	"github.com/cosmos/cosmos-sdk/codec"
	sdk "github.com/cosmos/cosmos-sdk/types"
	"github.com/cosmos/cosmos-sdk/types/module"
	authtx "github.com/cosmos/cosmos-sdk/x/auth/tx"
	"pgregory.net/rapid"

	"github.com/tendermint/fundraising/x/fundraising/types"
)

// C15 — exported genesis validates, re-imports to the same state and behaves the same.

type genesisModule interface {
	ExportGenesis(sdk.Context, codec.JSONCodec) json.RawMessage
	InitGenesis(sdk.Context, codec.JSONCodec, json.RawMessage)
}

// exportImport exports the module genesis at ctx, validates it and imports it into a branch
// whose module store has been emptied. It returns the new branch.
func exportImport(b *Base, ctx sdk.Context) (imported sdk.Context, raw json.RawMessage, vs []Violation) {
	mod := b.App.ModuleManager.Modules[types.ModuleName]
	gm, ok := mod.(genesisModule)
	if !ok {
		return ctx, nil, []Violation{viol("C15/no-genesis", "module does not implement genesis export/import")}
	}
	cdc := b.App.AppCodec()
	var perr string
	func() {
		defer func() {
			if r := recover(); r != nil {
				perr = fmt.Sprint(r)
			}
		}()
		raw = gm.ExportGenesis(ctx, cdc)
	}()
	if perr != "" {
		return ctx, nil, []Violation{viol("C15/export-panicked", "ExportGenesis panicked: %s", perr)}
	}
	if vb, ok := mod.(module.HasGenesisBasics); ok {
		if err := vb.ValidateGenesis(cdc, authtx.NewTxConfig(cdc, authtx.DefaultSignModes), raw); err != nil {
			vs = append(vs, viol("C15/validate", "the exported genesis fails the module's own validation: %v", err))
		}
	}
	// import into an emptied module store on a separate branch
	imported, _ = ctx.CacheContext()
	st := imported.KVStore(b.App.GetKey(types.StoreKey))
	var keys [][]byte
	it := st.Iterator(nil, nil)
	for ; it.Valid(); it.Next() {
		keys = append(keys, append([]byte{}, it.Key()...))
	}
	it.Close()
	for _, k := range keys {
		st.Delete(k)
	}
	func() {
		defer func() {
			if r := recover(); r != nil {
				perr = fmt.Sprint(r)
			}
		}()
		gm.InitGenesis(imported, cdc, raw)
	}()
	if perr != "" {
		vs = append(vs, viol("C15/import-failed", "InitGenesis of the exported genesis failed: %s", perr))
	}
	return imported, raw, vs
}

// behaviouralCounts renders the last matched counts that can still influence behaviour: open
// batch auctions that have extension rounds left.
func behaviouralCounts(s *Snap) string {
	out := ""
	for _, a := range s.Auctions {
		if a.IsBatch() && a.Status == types.AuctionStatusStarted && uint32(len(a.EndTimes)) < a.MaxRounds+1 {
			out += fmt.Sprintf("matchedlen[%d]=%d\n", a.ID, s.MatchedLen[a.ID])
		}
	}
	return out
}

func cmpWorlds(where string, a, b *Snap) []Violation {
	var vs []Violation
	if x, y := a.ModuleCanon(false), b.ModuleCanon(false); x != y {
		vs = append(vs, viol("C15/state-differs", "%s: original and re-imported module state differ:\n%s", where, diffLines(x, y)))
	}
	if x, y := behaviouralCounts(a), behaviouralCounts(b); x != y {
		vs = append(vs, viol("C15/matched-count-not-restored", "%s: last matched bid counts of open batch auctions differ:\n%s", where, diffLines(x, y)))
	}
	if x, y := a.BalancesCanon(), b.BalancesCanon(); x != y {
		vs = append(vs, viol("C15/balances-differ", "%s: balances differ:\n%s", where, diffLines(x, y)))
	}
	return vs
}

// RunC15 is the test body of C15.
func RunC15(t *testing.T) {
	const prop = "C15"
	col := GlobalCollector(prop)
	col.AddRule("K histories (>=2 auctions of both types in every status, several allowed bidders / bids / instalments per auction, auctions in the middle of extended rounds, terminal auctions) with an export point drawn anywhere, followed by a generated suffix of operations and blocks. (1) AppModule.ExportGenesis -> JSON -> ValidateGenesis must return nil; (2) on a second branch every key of the module store is deleted and the JSON imported with InitGenesis: auctions, bids, allow-list, instalments, params, auction sequence, per-auction bid sequences and the last matched count of open batch auctions with rounds left must be equal; (3) the suffix runs on both branches in lock-step: same accept/reject per operation, same block results, same module dump and balances after every step. Non-trivial = the export point has >=2 records of one kind (allowed bidders, bids or instalments) for one auction.")
	b := SharedBase()
	w := DefaultWeights()
	w.CreateBatch, w.Block, w.PerturbPct = 10, 26, 12
	w.UpdateAllowed = 8 // incl. calls with an invalid amount whose error the calling module ignores
	w.SnipePct = 40
	w.CreateFixed, w.CreateBatch, w.PlaceBid = 4, 14, 40
	w.Bidders = 4
	w.RoundsPool = []int{0, 1, 2, 3, 3, 5, 5, 30}
	w.Reimport = 0 // the export point is the subject of this check
	w.MaxAuctions = 4
	body := func(rt *rapid.T, replayOps []Op, split int) {
		g := NewGen(w)
		w1 := NewWorld(b)
		h1 := NewHistory(w1)
		labels := map[string]int{}
		fail := func(v Violation, h *History, splitAt int) {
			if f, ok := IsKnown(prop, v.Sig); ok {
				col.Known(f)
				return
			}
			raw, _ := json.Marshal(map[string]any{"export_after_op": splitAt})
			WriteReplay(os.Getenv("VERIF_REPLAY_OUT"), Replay{Property: prop, Engine: "K-export", Signature: v.Sig, Message: v.Msg, Ops: h.OpsLog(), Case: raw})
			col.mu.Lock()
			col.Violations++
			col.mu.Unlock()
			msg := fmt.Sprintf("VIOLATION %s [%s]\n%s\n(export after op #%d)\nhistory:\n%s", prop, v.Sig, v.Msg, splitAt, h.Describe())
			if rt != nil {
				rt.Fatalf("%s", msg)
			} else {
				t.Errorf("%s", msg)
			}
		}
		alive := true
		var n1 int
		if rt != nil {
			for _, o := range g.Prologue(rt) {
				st, _ := h1.Exec(o)
				if st.Op.Kind == OpBlock && !st.Res.OK {
					alive = false
				}
			}
			n1 = rapid.IntRange(4, 45).Draw(rt, "ops-before-export")
			for i := 0; i < n1 && alive; i++ {
				o := g.Next(rt, w1, h1.Steps[len(h1.Steps)-1].Post)
				st, _ := h1.Exec(o)
				if st.Op.Kind == OpBlock && !st.Res.OK {
					alive = false
				}
			}
		} else {
			for i := 0; i < split && i < len(replayOps); i++ {
				st, _ := h1.Exec(replayOps[i])
				if st.Op.Kind == OpBlock && !st.Res.OK {
					alive = false
				}
			}
		}
		if !alive || len(h1.Steps) == 0 {
			col.Case(h1.OpsLog(), false, labels, nil)
			return
		}
		splitAt := len(h1.Steps)
		snap := h1.Steps[len(h1.Steps)-1].Post
		// classification of the export point
		for _, a := range snap.Auctions {
			if len(snap.AllowedOf(a.ID)) >= 2 {
				labels["c15:>=2-allowed-bidders-in-one-auction"]++
			}
			if len(snap.BidsOf(a.ID)) >= 2 {
				labels["c15:>=2-bids-in-one-auction"]++
			}
			if len(snap.VQOf(a.ID)) >= 2 {
				labels["c15:>=2-instalments-in-one-auction"]++
			}
			if a.IsBatch() && a.Status == types.AuctionStatusStarted && len(a.EndTimes) > 1 {
				labels["c15:export-in-the-middle-of-extended-rounds"]++
				if snap.MatchedLen[a.ID] > 0 && uint32(len(a.EndTimes)) < a.MaxRounds+1 {
					labels["c15:export-with-nonzero-matched-count-and-rounds-left"]++
				}
			}
			labels["c15:export-status-"+a.Status.String()]++
		}
		if len(snap.Auctions) >= 2 {
			labels["c15:export->=2-auctions"]++
		}
		nt := labels["c15:>=2-allowed-bidders-in-one-auction"]+labels["c15:>=2-bids-in-one-auction"]+labels["c15:>=2-instalments-in-one-auction"] > 0
		// two sibling branches of the state at the export point
		orig, _ := w1.Ctx.CacheContext()
		imp, _, vs := exportImport(b, w1.Ctx)
		for _, v := range vs {
			fail(v, h1, splitAt)
		}
		if len(vs) > 0 {
			col.Case(h1.OpsLog(), nt, labels, nil)
			return
		}
		wa := &World{B: b, Ctx: orig, Now: w1.Now, Height: w1.Height}
		wb := &World{B: b, Ctx: imp, Now: w1.Now, Height: w1.Height}
		ha, hb := NewHistory(wa), NewHistory(wb)
		sa, sb := TakeSnap(b, wa.Ctx), TakeSnap(b, wb.Ctx)
		for _, v := range cmpWorlds("right after the import", sa, sb) {
			fail(v, h1, splitAt)
		}
		// lock-step suffix
		full := NewHistory(w1) // only used to describe the whole history on failure
		full.Steps = append(full.Steps, h1.Steps...)
		step := func(o Op) bool {
			sta, _ := ha.Exec(o)
			stb, _ := hb.Exec(o)
			full.Steps = append(full.Steps, sta)
			if sta.Res.OK != stb.Res.OK {
				fail(viol("C15/lockstep-decision", "after re-import, %s was %s (%s) while the original %s it (%s)", o.String(), okStr(stb.Res.OK), firstLine(stb.Res.Err), okStr(sta.Res.OK), firstLine(sta.Res.Err)), full, splitAt)
				return false
			}
			vs := cmpWorlds(fmt.Sprintf("after suffix op #%d (%s)", len(full.Steps)-1, o.Kind), sta.Post, stb.Post)
			for _, v := range vs {
				v.Sig = "C15/lockstep/" + v.Sig[len("C15/"):]
				fail(v, full, splitAt)
			}
			if len(vs) > 0 {
				return false
			}
			return !(sta.Op.Kind == OpBlock && !sta.Res.OK)
		}
		if rt != nil {
			n2 := rapid.IntRange(3, 30).Draw(rt, "ops-after-export")
			ok := true
			for i := 0; i < n2 && ok; i++ {
				ok = step(g.Next(rt, wa, ha.lastPost(sa)))
			}
			if ok && pct(rt, 70, "drive-suffix") {
				for i := 0; i < 80 && ok; i++ {
					ins := Instants(ha.lastPost(sa), wa.Now)
					if len(ins) == 0 {
						break
					}
					ok = step(Op{Kind: OpBlock, Time: ins[len(ins)-1]})
				}
			}
		} else {
			for i := split; i < len(replayOps); i++ {
				if !step(replayOps[i]) {
					break
				}
			}
		}
		for k, v := range g.Labels {
			labels["gen/"+k] = v
		}
		var sample any
		if nt {
			sample = map[string]any{"export_after_op": splitAt, "history": sampleOf(full).(map[string]any)["history"]}
		}
		col.Case(map[string]any{"ops": full.OpsLog(), "split": splitAt}, nt, labels, sample)
	}
	if p := os.Getenv("VERIF_REPLAY_FILE"); p != "" {
		r, err := ReadReplay(p)
		if err != nil {
			t.Fatal(err)
		}
		var c struct {
			Split int `json:"export_after_op"`
		}
		_ = json.Unmarshal(r.Case, &c)
		body(nil, r.Ops, c.Split)
		return
	}
	rapid.Check(t, func(rt *rapid.T) { body(rt, nil, 0) })
}

// lastPost returns the post-state of the last step (or def when no step ran yet).
func (h *History) lastPost(def *Snap) *Snap {
	if len(h.Steps) == 0 {
		return def
	}
	return h.Steps[len(h.Steps)-1].Post
}

// ExportModuleGenesis returns the module's exported genesis at ctx.
func ExportModuleGenesis(b *Base, ctx sdk.Context) json.RawMessage {
	gm := b.App.ModuleManager.Modules[types.ModuleName].(genesisModule)
	return gm.ExportGenesis(ctx, b.App.AppCodec())
}
