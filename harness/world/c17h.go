package world

import (
	"fmt"
	"strings"

	"cosmossdk.io/math"
	sdk "github.com/cosmos/cosmos-sdk/types"
	"pgregory.net/rapid"

	"github.com/tendermint/fundraising/x/fundraising/keeper"
	"github.com/tendermint/fundraising/x/fundraising/types"
)

// C17, history part: the general history generator of the other properties drives a keeper with
// instrumented listeners, so that "every operation that triggers a hook" means every operation of
// every generated history (empty order books, repeated updates with equal values, modifications
// that change nothing, cancellations, several auctions settling in one block, extended rounds, ...),
// not only the operations of the fixed scenario of RunC17.

// HookRig is a keeper with instrumented listeners and its message server.
type HookRig struct {
	K         *keeper.Keeper
	MS        types.MsgServer
	Listeners int
	Plan      hookPlan
	calls     []hookCall
	veto      bool
}

func newHookRig(b *Base, o Op) *HookRig {
	r := &HookRig{Listeners: o.Listeners, Plan: hookPlan{Method: o.FaultMethod, Position: o.FaultPos, Occurrence: o.FaultOcc}}
	if r.Listeners < 1 {
		r.Listeners = 1
	}
	r.K = newHookKeeper(b, r.Listeners, &r.Plan, &r.calls, &r.veto)
	r.MS = keeper.NewMsgServerImpl(*r.K)
	return r
}

// handle does what the application's message router does for a fundraising message: stateless
// validation, then the message server.
func (r *HookRig) handle(ctx sdk.Context, msg sdk.Msg) (*sdk.Result, error) {
	if v, ok := msg.(sdk.HasValidateBasic); ok {
		if err := v.ValidateBasic(); err != nil {
			return nil, err
		}
	}
	var err error
	switch m := msg.(type) {
	case *types.MsgCreateFixedPriceAuction:
		_, err = r.MS.CreateFixedPriceAuction(ctx, m)
	case *types.MsgCreateBatchAuction:
		_, err = r.MS.CreateBatchAuction(ctx, m)
	case *types.MsgCancelAuction:
		_, err = r.MS.CancelAuction(ctx, m)
	case *types.MsgPlaceBid:
		_, err = r.MS.PlaceBid(ctx, m)
	case *types.MsgModifyBid:
		_, err = r.MS.ModifyBid(ctx, m)
	case *types.MsgAddAllowedBidder:
		_, err = r.MS.AddAllowedBidder(ctx, m)
	case *types.MsgUpdateParams:
		_, err = r.MS.UpdateParams(ctx, m)
	default:
		panic("harness: hook rig cannot handle " + sdk.MsgTypeURL(msg))
	}
	return nil, err
}

type monC17H struct{}

func decStr(m interface{ String() string }) string { return m.String() }

// expectedHookCalls derives, from the operation as sent, the state before it and the transfers it
// made, the listener invocations a successful operation must have produced: (method, args, obs).
func expectedHookCalls(h *History, st *Step) (want [][3]string, judged bool) {
	o, pre, post := st.Op, st.Pre, st.Post
	gov := h.W.B.GovAddr
	switch o.Kind {
	case OpCreateFixed:
		m := st.Raw.Msg(gov).(*types.MsgCreateFixedPriceAuction)
		args := fmt.Sprintf("%s|%s|%s|%s|%s|%s|%s", CanonAddr(m.Auctioneer), m.StartPrice, m.SellingCoin, m.PayingCoinDenom, schedStr(m.VestingSchedules), tfmt(m.StartTime), tfmt(m.EndTime))
		return [][3]string{{"BeforeFixedPriceAuctionCreated", args, "stored=false"}, {"AfterFixedPriceAuctionCreated", fmt.Sprintf("%d|%s", pre.AuctionSeq, args), "stored=true"}}, true
	case OpCreateBatch:
		m := st.Raw.Msg(gov).(*types.MsgCreateBatchAuction)
		args := fmt.Sprintf("%s|%s|%s|%s|%s|%s|%d|%s|%s|%s", CanonAddr(m.Auctioneer), m.StartPrice, m.MinBidPrice, m.SellingCoin, m.PayingCoinDenom, schedStr(m.VestingSchedules), m.MaxExtendedRound, m.ExtendedRoundRate, tfmt(m.StartTime), tfmt(m.EndTime))
		return [][3]string{{"BeforeBatchAuctionCreated", args, "stored=false"}, {"AfterBatchAuctionCreated", fmt.Sprintf("%d|%s", pre.AuctionSeq, args), "stored=true"}}, true
	case OpCancel:
		a := pre.Auction(o.Auction)
		return [][3]string{{"BeforeAuctionCanceled", fmt.Sprintf("%d|%s", o.Auction, o.SignerAddr()), "status=" + a.Status.String()}}, true
	case OpPlaceBid:
		m := st.Raw.Msg(gov).(*types.MsgPlaceBid)
		return [][3]string{{"BeforeBidPlaced", fmt.Sprintf("%d|%d|%s|%d|%s|%s", m.AuctionId, pre.BidSeq[m.AuctionId]+1, CanonAddr(m.Bidder), m.BidType, m.Price, m.Coin), "stored=false"}}, true
	case OpModifyBid:
		m := st.Raw.Msg(gov).(*types.MsgModifyBid)
		old := pre.Bid(m.AuctionId, m.BidId)
		if old == nil {
			return nil, false
		}
		oldCoin := sdk.NewCoin(old.Denom, IntFromB(old.Amt))
		return [][3]string{{"BeforeBidModified", fmt.Sprintf("%d|%d|%s|%d|%s|%s", m.AuctionId, m.BidId, CanonAddr(m.Bidder), old.Type, m.Price, m.Coin), fmt.Sprintf("stored=%s|%s", DecFromM(old.PriceM), oldCoin)}}, true
	case OpAddAllowed, OpMsgAddAllowed:
		bidder := o.BidderAddr()
		if o.Kind == OpMsgAddAllowed {
			bidder = o.SignerAddr()
		}
		stored := pre.Cap(o.Auction, bidder) != nil
		return [][3]string{{"BeforeAllowedBiddersAdded", fmt.Sprintf("%d/%s/%s", o.Auction, bidder, bigOf(o.MaxBid)), fmt.Sprintf("stored=%v", stored)}}, true
	case OpUpdateAllowed:
		old := pre.Cap(o.Auction, o.BidderAddr())
		if old == nil {
			return nil, false
		}
		return [][3]string{{"BeforeAllowedBidderUpdated", fmt.Sprintf("%d|%s|%s", o.Auction, o.BidderAddr(), bigOf(o.MaxBid)), "stored=" + old.String()}}, true
	case OpBlock:
		judged = true
		for _, au := range pre.Auctions {
			pa := post.Auction(au.ID)
			if au.Status != types.AuctionStatusStarted || pa == nil || pa.Status == types.AuctionStatusStarted {
				continue
			}
			alloc, refund := map[string]math.Int{}, map[string]math.Int{}
			isBidder := map[string]bool{}
			for _, bd := range pre.BidsOf(au.ID) {
				isBidder[bd.Bidder] = true
			}
			if isBidder[au.Auctioneer] {
				// the return of the unsold remainder cannot be told from an allocation to the auctioneer
				h.Label("c17h:settlement-with-auctioneer-bidding(values-not-judged)")
				return nil, false
			}
			for _, x := range st.Xfers {
				if !isBidder[x.To] {
					continue
				}
				if x.From == au.SellingAddr && x.Denom == au.SellDenom {
					alloc[x.To] = IntFromB(badd(IntB(zeroInt(alloc[x.To])), x.Amt))
				}
				if x.From == au.PayingAddr && x.Denom == au.PayDenom && au.IsBatch() {
					refund[x.To] = IntFromB(badd(IntB(zeroInt(refund[x.To])), x.Amt))
				}
			}
			want = append(want, [3]string{"BeforeSellingCoinsAllocated", fmt.Sprintf("%d|alloc:%s|refund:%s", au.ID, mapStr(alloc), mapStr(refund)),
				fmt.Sprintf("escrow=%s status=%s", pre.BalOf(au.SellingAddr, au.SellDenom), types.AuctionStatusStarted)})
			if len(pre.BidsOf(au.ID)) == 0 {
				h.Label("c17h:settlement-of-empty-book")
			}
			if au.IsBatch() {
				h.Label("c17h:batch-settlement")
			} else {
				h.Label("c17h:fixed-settlement")
			}
		}
		if len(want) >= 2 {
			h.Label("c17h:>=2-settlements-in-one-block")
		}
		return want, true
	}
	return nil, true // no hook is offered by this operation
}

func (monC17H) Step(h *History, st *Step) []Violation {
	if h.W.Rig == nil || st.Op.Kind == OpHooks {
		return nil
	}
	rig := h.W.Rig
	res := st.Res
	L := rig.Listeners
	if res.VetoIssued {
		plan := rig.Plan
		h.Label("c17h:veto/" + plan.Method)
		h.Label(fmt.Sprintf("c17h:veto-position-%d-of-%d", plan.Position, L))
		h.Label("c17h:veto-during/" + st.Op.Kind)
		if res.OK {
			return []Violation{viol("C17/veto-swallowed/"+plan.Method, "%s: listener %d of %d returned an error from %s but the operation succeeded and its effects were committed", st.Op.String(), plan.Position, L, plan.Method)}
		}
		if !strings.Contains(res.Err, errVeto.Error()) {
			return []Violation{viol("C17/veto-error-replaced", "%s: listener %d vetoed %s but the operation reported a different error: %s", st.Op.String(), plan.Position, plan.Method, firstLine(res.Err))}
		}
		// the invocation that was vetoed must not have reached the listeners behind the failing one
		n := countCalls(res.HookCalls, plan.Method, plan.Position)
		for l := plan.Position + 1; l < L; l++ {
			if countCalls(res.HookCalls, plan.Method, l) >= n {
				return []Violation{viol("C17/listener-called-after-veto", "%s: listener %d was called with %s after listener %d vetoed it", st.Op.String(), l, plan.Method, plan.Position)}
			}
		}
		if st.Pre.ModuleCanon(true) != st.Post.ModuleCanon(true) || st.Pre.BalancesCanon() != st.Post.BalancesCanon() {
			return []Violation{viol("C17/veto-not-effective", "%s vetoed by listener %d but state changed", st.Op.String(), plan.Position)}
		}
		return nil
	}
	if !res.OK {
		return nil // failed for a reason of its own: nothing is promised about listeners
	}
	want, judged := expectedHookCalls(h, st)
	if !judged {
		return nil
	}
	calls := res.HookCalls
	if len(calls) != len(want)*L {
		return []Violation{viol("C17/call-count", "%s succeeded: %d listener calls recorded, expected %d (%d listeners x %v)\n got: %v", st.Op.String(), len(calls), len(want)*L, L, want, calls)}
	}
	i := 0
	for _, wc := range want {
		for l := 0; l < L; l++ {
			g := calls[i]
			i++
			if g.Listener != l || g.Method != wc[0] {
				return []Violation{viol("C17/call-order", "%s: call %d is listener %d %s, expected listener %d %s", st.Op.String(), i-1, g.Listener, g.Method, l, wc[0])}
			}
			if g.Args != wc[1] {
				return []Violation{viol("C17/call-values/"+g.Method, "%s: listener %d got %s(%s), the operation used (%s)", st.Op.String(), l, g.Method, g.Args, wc[1])}
			}
			if g.Obs != wc[2] {
				return []Violation{viol("C17/call-timing/"+g.Method, "%s: when %s was called listener %d observed [%s], expected [%s] (the announced change must not be committed yet for Before*, and be stored for After*)", st.Op.String(), g.Method, l, g.Obs, wc[2])}
			}
		}
		h.Label("c17h:fired/" + wc[0])
	}
	// classes the fixed scenario does not contain
	switch st.Op.Kind {
	case OpUpdateAllowed:
		if old := st.Pre.Cap(st.Op.Auction, st.Op.BidderAddr()); old != nil && old.Cmp(bigOf(st.Op.MaxBid)) == 0 {
			h.Label("c17h:update-to-the-stored-value")
		}
	case OpModifyBid:
		if old := st.Pre.Bid(st.Op.Auction, st.Op.BidID); old != nil && DecFromM(old.PriceM).String() == dec(st.Op.Price).String() {
			h.Label("c17h:modify-with-unchanged-price")
		}
	case OpAddAllowed, OpMsgAddAllowed:
		if len(want) == 1 && strings.HasSuffix(want[0][2], "true") {
			h.Label("c17h:add-of-a-listed-bidder")
		}
	}
	return nil
}

func (monC17H) Final(h *History) []Violation {
	if h.W.Rig != nil && h.W.Rig.Plan.Method != "" && !hasLabelPrefix(h, "c17h:veto/") {
		h.Label("c17h:planned-veto-never-reached")
	}
	return nil
}

func hasLabelPrefix(h *History, p string) bool {
	for k := range h.Labels {
		if strings.HasPrefix(k, p) {
			return true
		}
	}
	return false
}

// genHooksOp draws the listener configuration of a history.
func genHooksOp(t *rapid.T) Op {
	o := Op{Kind: OpHooks, Signer: -1, Listeners: 1 + uni(t, "listeners", 4)}
	if !pct(t, 30, "no-fault") {
		o.FaultMethod = hookMethods[uni(t, "fault-method", len(hookMethods))]
		o.FaultPos = uni(t, "fault-position", o.Listeners)
		occ := 4
		switch o.FaultMethod {
		case "BeforeAuctionCanceled":
			occ = 1
		case "BeforeSellingCoinsAllocated", "BeforeBatchAuctionCreated", "AfterBatchAuctionCreated", "BeforeFixedPriceAuctionCreated", "AfterFixedPriceAuctionCreated", "BeforeBidModified":
			occ = 2
		case "BeforeAllowedBidderUpdated":
			occ = 3
		}
		o.FaultOcc = uni(t, "fault-occurrence", occ)
	}
	return o
}

// CfgC17H is the history part of C17.
func CfgC17H() PropCfg {
	w := DefaultWeights()
	w.Hooks = true
	w.Reimport, w.FaultBlock = 0, 0
	w.PerturbPct = 4
	w.PoorPct = 5
	w.Cancel = 5
	w.UpdateAllowed = 8
	w.MaxAuctions = 4
	return PropCfg{ID: "C17", Weights: w, MinOps: 12, MaxOps: 60, DrivePct: 85,
		New: func() Monitor { return monC17H{} },
		NonTrivial: func(h *History) bool {
			return hasLabelPrefix(h, "c17h:veto/") || hasLabelPrefix(h, "c17h:fired/BeforeSellingCoinsAllocated")
		},
		Rule: "History part: the general operation generator (creates of both types, cancel, three bid types, modify, keeper-level and message-level allow-list additions, allow-list updates, parameter changes, donations, blocks at and around every pending instant, 1..4 concurrent auctions, near-valid and invalid inputs) drives a keeper with L in 1..4 instrumented listeners, one of which (drawn position) fails at the n-th invocation of a drawn hook method. After every successful operation the recorded listener calls must be exactly: each listener once per hook the operation offers, in registration order, with arguments equal to the message as sent / the ids the state assigned / the per-bidder transfers of the settlement, observing the store before the announced change (after it for After*). An operation during which the listener failed must return that error (block processing must report it), must not have reached the listeners behind the failing one, and must leave module state and balances unchanged. Non-trivial = a history in which the planned listener failure was reached or a settlement hook fired.",
	}
}
