package world

import (
	"math/big"
	"sort"

	"github.com/tendermint/fundraising/x/fundraising/types"
)

// C01 — escrow accounts hold exactly what the records owe (equality, every denom), plus the
// third-party donations the ledger recorded and that have not been swept.
type monC01 struct{}

func (monC01) Step(h *History, st *Step) []Violation {
	var vs []Violation
	post := st.Post
	for _, a := range post.Auctions {
		owed := map[string]map[string]*big.Int{"selling": {}, "paying": {}, "vesting": {}}
		switch a.Status {
		case types.AuctionStatusStandBy, types.AuctionStatusStarted:
			owed["selling"][a.SellDenom] = bcopy(a.SellAmt)
		}
		if a.Status == types.AuctionStatusStarted {
			sum := new(big.Int)
			for _, b := range post.BidsOf(a.ID) {
				sum.Add(sum, b.Req(a.PayDenom))
			}
			owed["paying"][a.PayDenom] = sum
		}
		if a.Status == types.AuctionStatusVesting {
			sum := new(big.Int)
			for _, v := range post.VQOf(a.ID) {
				if !v.Released {
					sum.Add(sum, v.Amt)
				}
			}
			owed["vesting"][a.PayDenom] = sum
		}
		for role, addr := range map[string]string{"selling": a.SellingAddr, "paying": a.PayingAddr, "vesting": a.VestingAddr} {
			denoms := map[string]bool{}
			for d := range post.Bal[addr] {
				denoms[d] = true
			}
			for d := range owed[role] {
				denoms[d] = true
			}
			if m := h.Donated[a.ID]; m != nil {
				for d := range m[role] {
					denoms[d] = true
				}
			}
			var ds []string
			for d := range denoms {
				ds = append(ds, d)
			}
			sort.Strings(ds)
			for _, d := range ds {
				want := new(big.Int)
				if v := owed[role][d]; v != nil {
					want.Add(want, v)
				}
				want.Add(want, h.donated(a.ID, role, d))
				got := post.BalOf(addr, d)
				if got.Cmp(want) != 0 {
					vs = append(vs, viol("C01/escrow-mismatch/"+role,
						"after step #%d (%s): auction %d (status %s) %s escrow holds %s%s, records owe %s + unswept donations %s = %s",
						st.Idx, st.Op.Kind, a.ID, a.Status, role, got, d, bsub(want, h.donated(a.ID, role, d)), h.donated(a.ID, role, d), want))
				}
			}
		}
	}
	// classification for the non-trivial rule
	for _, tr := range st.Trans {
		if tr.Settled {
			if tr.Pre.IsBatch() {
				h.Label("c01:batch-settle")
				if rec := h.Settle[tr.ID]; rec != nil && rec.Ref != nil {
					for _, bd := range rec.Ref.Bidders {
						if bsub(rec.Ref.ReqSum[bd], rec.Ref.PayLo[bd]).Sign() > 0 {
							h.Label("c01:batch-settle-with-refund")
							break
						}
					}
				}
			} else {
				h.Label("c01:fixed-settle")
			}
			if st.SweptS[tr.ID].Sign() > 0 || st.SweptP[tr.ID].Sign() > 0 {
				h.Label("c01:donation-then-settle")
			}
		}
		if len(tr.ReleasedNow) > 0 && tr.Post.Status == types.AuctionStatusVesting {
			h.Label("c01:vesting-partial-release")
		}
		if tr.Cancelled {
			h.Label("c01:cancel")
		}
	}
	if st.Op.Kind == OpModifyBid && st.Res.OK {
		if b := st.Post.Bid(st.Op.Auction, st.Op.BidID); b != nil && b.Type == types.BidTypeBatchMany {
			if new(big.Int).Mod(bmul(b.Amt, b.PriceM), E18).Sign() != 0 {
				h.Label("c01:modify-many-noninteger")
			}
		}
	}
	return vs
}

func (monC01) Final(h *History) []Violation { return nil }

// CfgC01 is the exploration configuration of C01.
func CfgC01() PropCfg {
	w := DefaultWeights()
	w.PlaceBid, w.ModifyBid, w.Block, w.Donate = 32, 16, 24, 6
	return PropCfg{ID: "C01", Weights: w, MinOps: 10, MaxOps: 60, DrivePct: 50,
		New: func() Monitor { return monC01{} },
		NonTrivial: func(h *History) bool {
			return hasLabel(h, "c01:batch-settle", "c01:fixed-settle", "c01:modify-many-noninteger")
		},
		Rule: "Engine K: random interleavings (<=60 ops, <=4 concurrent auctions of both types) of create/bid/modify/cancel/allow-list/donate/params/block ops at boundary block times; after EVERY op, for every auction and every denom: escrow balance == amount owed by the records (offered amount | sum of ceil(amount*price) or worth over bids | unreleased instalments) + unswept third-party donations. Non-trivial = the history contains a settlement or an accepted modification of a quantity bid whose amount*price is not an integer; distinct = distinct op logs (SHA-256).",
	}
}
