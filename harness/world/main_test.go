package world

import (
	"os"
	"testing"
)

func TestMain(m *testing.M) {
	code := m.Run()
	FlushEvidence()
	os.Exit(code)
}
