package world

import (
	"fmt"
	"math/big"
	"time"

	"github.com/tendermint/fundraising/x/fundraising/types"
)

// ---------------------------------------------------------------------------------------------
// C06 — fixed-price sales are first-come-first-served against an exact remainder.
// ---------------------------------------------------------------------------------------------
type monC06 struct{}

func (monC06) Step(h *History, st *Step) []Violation {
	var vs []Violation
	pre, post := st.Pre, st.Post
	if st.Op.Kind == OpPlaceBid {
		if a := pre.Auction(st.Op.Auction); a != nil && !a.IsBatch() {
			exp := RefAccept(pre, st.Op, st.Now, h.W.B.GovAddr)
			if st.Res.FaultHit != "" {
				// a bank transfer of this message was made to fail: the only acceptable outcome is the error
				if st.Res.OK {
					vs = append(vs, viol("C06/bank-failure-swallowed", "bid %s was accepted although its bank transfer %s failed", st.Op.String(), st.Res.FaultHit))
				}
				return vs
			}
			if exp.Accept != st.Res.OK {
				vs = append(vs, viol("C06/accept-mismatch", "fixed price auction %d (status %s, remaining %s, price %s): bid %s was %s but the acceptance rule says %s (%s); impl error: %s",
					a.ID, a.Status, a.Remaining, mstr(a.StartPriceM), st.Op.String(), okStr(st.Res.OK), okStr(exp.Accept), exp.Reason, firstLine(st.Res.Err)))
			}
			if st.Res.OK {
				h.Label("c06:accepted")
				if exp.Qty != nil && exp.Qty.Cmp(a.Remaining) == 0 {
					h.Label("c06:exactly-exhausts-remainder")
				}
				if exp.Qty != nil && exp.Qty.Sign() == 0 {
					h.Label("c06:zero-quantity-bid")
				}
			} else if exp.Reason == "remaining" || exp.Reason == "allowance" {
				h.Label("c06:rejected-" + exp.Reason)
			}
		}
	}
	for _, a := range post.Auctions {
		if a.IsBatch() {
			continue
		}
		// the published remainder is offered minus accepted bids (zero once cancelled: C12)
		if a.Status != types.AuctionStatusCancelled {
			sold := new(big.Int)
			for _, b := range post.BidsOf(a.ID) {
				sold.Add(sold, b.QtyAt(a.PayDenom, b.PriceM))
			}
			if want := bsub(a.SellAmt, sold); a.Remaining.Cmp(want) != 0 || a.RemainingDenom != a.SellDenom {
				vs = append(vs, viol("C06/remainder", "step #%d: fixed price auction %d publishes remaining %s%s, offered %s - accepted %s = %s", st.Idx, a.ID, a.Remaining, a.RemainingDenom, a.SellAmt, sold, want))
			}
			if a.Remaining.Sign() < 0 {
				vs = append(vs, viol("C06/oversold", "fixed price auction %d remaining is negative: %s", a.ID, a.Remaining))
			}
		}
		// earlier bids are never displaced or scaled down
		for _, ob := range pre.BidsOf(a.ID) {
			nb := post.Bid(a.ID, ob.ID)
			if nb == nil || nb.Canon() != ob.Canon() {
				vs = append(vs, viol("C06/earlier-bid-changed", "step #%d (%s): bid %d of fixed price auction %d changed: %s -> %v", st.Idx, st.Op.Kind, ob.ID, a.ID, ob.Canon(), canonOrNil(nb)))
			}
		}
	}
	for _, tr := range st.Trans {
		if tr.Settled && !tr.Pre.IsBatch() {
			f := flowsOfSettlement(st, tr.Pre)
			rec := h.Settle[tr.ID]
			for b, q := range rec.Alloc {
				if b != tr.Pre.Auctioneer && zeroIfNil(f.S[b]).Cmp(q) != 0 {
					vs = append(vs, viol("C06/settlement-allocation", "fixed price auction %d settled: %s received %s, accepted bids add up to %s", tr.ID, short(b), zeroIfNil(f.S[b]), q))
				}
			}
			h.Label("c06:settled")
		}
	}
	return vs
}

func (monC06) Final(h *History) []Violation { return nil }

func okStr(b bool) string {
	if b {
		return "ACCEPTED"
	}
	return "REJECTED"
}

func canonOrNil(b *BidRec) string {
	if b == nil {
		return "<deleted>"
	}
	return b.Canon()
}

// CfgC06 is the configuration of C06.
func CfgC06() PropCfg {
	w := DefaultWeights()
	w.CreateFixed, w.CreateBatch = 14, 2
	w.PlaceBid, w.ModifyBid, w.UpdateAllowed, w.Block = 50, 3, 6, 12
	w.PerturbPct = 10
	w.PoorPct = 25
	return PropCfg{ID: "C06", Weights: w, MinOps: 12, MaxOps: 60, DrivePct: 60,
		New: func() Monitor { return monC06{} },
		NonTrivial: func(h *History) bool {
			return h.Labels["c06:accepted"] >= 3 && hasLabel(h, "c06:rejected-remaining", "c06:rejected-allowance")
		},
		Rule: "K: fixed-price auctions with long bid sequences in both denominations by several bidders, bids around (exactly at / one off) the remainder and the allowance, zero-quantity bids, bids after sell-out, tight balances. Oracle: predictive acceptance rule (open, fixed price, one of the two denominations, allow-listed, quantity <= remainder, cumulative <= allowance, funds) must agree with accept/reject; after every op remaining == offered - sum of accepted quantities; no earlier bid record changes; settlement allocates the sum of quantities. Non-trivial = >=3 accepted bids and >=1 rejection for remainder or allowance.",
	}
}

// ---------------------------------------------------------------------------------------------
// C08 — auctions move only forward through their lifecycle, at the right block.
// ---------------------------------------------------------------------------------------------
type monC08 struct{}

var lifecycleEdges = map[[2]types.AuctionStatus]bool{
	{types.AuctionStatusStandBy, types.AuctionStatusStarted}:   true,
	{types.AuctionStatusStandBy, types.AuctionStatusCancelled}: true,
	{types.AuctionStatusStarted, types.AuctionStatusVesting}:   true,
	{types.AuctionStatusStarted, types.AuctionStatusFinished}:  true,
	{types.AuctionStatusVesting, types.AuctionStatusFinished}:  true,
}

func (monC08) Step(h *History, st *Step) []Violation {
	var vs []Violation
	pre, post := st.Pre, st.Post
	t := st.Now
	for _, pa := range post.Auctions {
		ba := pre.Auction(pa.ID)
		if ba == nil {
			// created by this step: open at creation iff the start time has already passed
			want := types.AuctionStatusStandBy
			if !pa.Start.After(t) {
				want = types.AuctionStatusStarted
				h.Label("c08:created-open")
			}
			if pa.Start.Equal(t) {
				h.Label("c08:start==creation-time")
			}
			if pa.Status != want {
				vs = append(vs, viol("C08/status-at-creation", "auction %d created at %s with start %s has status %s, expected %s", pa.ID, tfmt(t), tfmt(pa.Start), pa.Status, want))
			}
			continue
		}
		if ba.Status != pa.Status && !lifecycleEdges[[2]types.AuctionStatus{ba.Status, pa.Status}] {
			vs = append(vs, viol("C08/illegal-transition", "step #%d (%s): auction %d went %s -> %s", st.Idx, st.Op.Kind, pa.ID, ba.Status, pa.Status))
		}
		if st.Op.Kind != OpBlock {
			// outside block processing only an accepted cancellation changes a status
			if ba.Status != pa.Status && !(st.Op.Kind == OpCancel && st.Res.OK && st.Op.Auction == pa.ID) {
				vs = append(vs, viol("C08/status-changed-by-message", "step #%d (%s): auction %d went %s -> %s outside block processing", st.Idx, st.Op.Kind, pa.ID, ba.Status, pa.Status))
			}
			continue
		}
		if !st.Res.OK {
			continue
		}
		// block processing: one transition per auction, decided on the status at block start
		switch ba.Status {
		case types.AuctionStatusStandBy:
			want := types.AuctionStatusStandBy
			if !ba.Start.After(t) {
				want = types.AuctionStatusStarted
			}
			if ba.Start.Equal(t) {
				h.Label("c08:block==start")
			}
			if pa.Status != want {
				vs = append(vs, viol("C08/open-at-wrong-block", "block %s: waiting auction %d with start %s is %s afterwards, expected %s", tfmt(t), pa.ID, tfmt(ba.Start), pa.Status, want))
			}
		case types.AuctionStatusStarted:
			due := !ba.LastEnd().After(t)
			if ba.LastEnd().Equal(t) {
				h.Label("c08:block==end")
			}
			if !due {
				if pa.Status != types.AuctionStatusStarted || len(pa.EndTimes) != len(ba.EndTimes) {
					vs = append(vs, viol("C08/settled-too-early", "block %s: open auction %d with end %s became %s (end times %d -> %d)", tfmt(t), pa.ID, tfmt(ba.LastEnd()), pa.Status, len(ba.EndTimes), len(pa.EndTimes)))
				}
				break
			}
			extended := len(pa.EndTimes) == len(ba.EndTimes)+1 && pa.Status == types.AuctionStatusStarted
			if extended {
				if !ba.IsBatch() || uint32(len(ba.EndTimes)) >= ba.MaxRounds+1 {
					vs = append(vs, viol("C08/illegal-extension", "block %s: auction %d (batch=%v, max rounds %d) was extended to %d end times", tfmt(t), pa.ID, ba.IsBatch(), ba.MaxRounds, len(pa.EndTimes)))
				}
				h.Label("c08:extended")
				break
			}
			want := types.AuctionStatusVesting
			if len(ba.Schedules) == 0 {
				want = types.AuctionStatusFinished
			}
			if pa.Status != want {
				vs = append(vs, viol("C08/not-settled-at-end", "block %s: open auction %d with end %s (at or before the block time) is %s afterwards, expected %s", tfmt(t), pa.ID, tfmt(ba.LastEnd()), pa.Status, want))
			}
			h.Label("c08:settled")
		case types.AuctionStatusVesting:
			// finishes when its last instalment is released: the last release time of the agreed schedule
			sched := ba.Schedules
			want := types.AuctionStatusVesting
			if len(sched) > 0 && !sched[len(sched)-1].Release.After(t) {
				want = types.AuctionStatusFinished
			}
			for _, v := range sched {
				if v.Release.Equal(t) {
					h.Label("c08:block==release")
				}
			}
			if pa.Status != want && len(sched) > 0 {
				vs = append(vs, viol("C08/finish-at-wrong-block", "block %s: vesting auction %d (last release %s) is %s afterwards, expected %s", tfmt(t), pa.ID, tfmt(sched[len(sched)-1].Release), pa.Status, want))
			}
		default:
			if pa.Status != ba.Status {
				vs = append(vs, viol("C08/terminal-status-changed", "block %s: auction %d left terminal status %s for %s", tfmt(t), pa.ID, ba.Status, pa.Status))
			}
			h.Label("c08:block-over-terminal-auction")
		}
	}
	// bids and modifications are accepted only while the auction is open
	if (st.Op.Kind == OpPlaceBid || st.Op.Kind == OpModifyBid) && st.Res.OK {
		if a := pre.Auction(st.Op.Auction); a == nil || a.Status != types.AuctionStatusStarted {
			status := "missing"
			if a != nil {
				status = a.Status.String()
			}
			vs = append(vs, viol("C08/bid-while-not-open", "step #%d: %s accepted on auction %d whose status is %s", st.Idx, st.Op.Kind, st.Op.Auction, status))
		}
	}
	if (st.Op.Kind == OpPlaceBid || st.Op.Kind == OpModifyBid || st.Op.Kind == OpCancel) && !st.Res.OK {
		if a := pre.Auction(st.Op.Auction); a != nil && a.Status != types.AuctionStatusStarted && a.Status != types.AuctionStatusStandBy {
			h.Label("c08:op-on-closed-auction-rejected")
		}
	}
	return vs
}

func (monC08) Final(h *History) []Violation {
	var vs []Violation
	for id, seq := range h.Statuses {
		for i := 1; i < len(seq); i++ {
			if !lifecycleEdges[[2]types.AuctionStatus{seq[i-1], seq[i]}] {
				vs = append(vs, viol("C08/illegal-path", "auction %d went through %v", id, seq))
			}
		}
	}
	return vs
}

// CfgC08 is the configuration of C08.
func CfgC08() PropCfg {
	w := DefaultWeights()
	w.Block, w.Cancel, w.PlaceBid, w.ModifyBid = 34, 6, 22, 8
	return PropCfg{ID: "C08", Weights: w, MinOps: 10, MaxOps: 60, DrivePct: 60,
		New: func() Monitor { return monC08{} },
		NonTrivial: func(h *History) bool {
			return hasLabel(h, "c08:block==start", "c08:block==end", "c08:block==release", "c08:start==creation-time")
		},
		Rule: "K histories with block times exactly on, one nanosecond before/after and far beyond every start, end and release instant; creation with start in the past / exactly now / in the future; both types, 0..n instalments, extension; bids, modifications and cancels in every status; blocks after terminal states. Oracle: predictive lifecycle (one transition per auction per block, decided on the status at block start): waiting->open in the first block with t >= start (or at creation), open->(extended|vesting|finished) in the first block with t >= current end, vesting->finished with the last release; only legal edges; terminal statuses never change; accepted bids/modifications found the auction open. Non-trivial = a block or creation time exactly equal to a start, end or release instant.",
	}
}

// ---------------------------------------------------------------------------------------------
// C09 — vesting pays the auctioneer exactly the proceeds, on schedule, exactly once.
// ---------------------------------------------------------------------------------------------
type monC09 struct {
	paid map[string]int // "auction/releaseNano" -> number of times paid
}

func vqKey(v *VQRec) string { return fmt.Sprintf("%d/%d", v.Auction, v.Release.UnixNano()) }

func (m *monC09) Step(h *History, st *Step) []Violation {
	var vs []Violation
	if m.paid == nil {
		m.paid = map[string]int{}
	}
	pre, post := st.Pre, st.Post
	t := st.Now
	for _, tr := range st.Trans {
		if !tr.Settled {
			continue
		}
		a := tr.Pre
		f := flowsOfSettlement(st, a)
		if len(a.Schedules) == 0 {
			// all proceeds are paid at settlement: whatever is in the paying escrow after the refunds
			if got := post.BalOf(a.PayingAddr, a.PayDenom); got.Sign() != 0 {
				vs = append(vs, viol("C09/no-schedule-not-paid-out", "auction %d (no schedule) settled but %s%s stays in the paying escrow", a.ID, got, a.PayDenom))
			}
			if tr.Post.Status != types.AuctionStatusFinished {
				vs = append(vs, viol("C09/no-schedule-status", "auction %d (no schedule) settled into %s", a.ID, tr.Post.Status))
			}
			if len(post.VQOf(a.ID)) != 0 {
				vs = append(vs, viol("C09/no-schedule-queue", "auction %d (no schedule) has %d instalments", a.ID, len(post.VQOf(a.ID))))
			}
			h.Label("c09:settled-without-schedule")
			continue
		}
		proceeds := f.ToVest
		vq := post.VQOf(a.ID)
		want := RefVesting(proceeds, a.Schedules)
		if len(vq) != len(a.Schedules) {
			vs = append(vs, viol("C09/instalment-count", "auction %d: %d instalments recorded for %d schedule entries (proceeds %s)", a.ID, len(vq), len(a.Schedules), proceeds))
			continue
		}
		sum := new(big.Int)
		for i, v := range vq {
			sum.Add(sum, v.Amt)
			if v.Amt.Cmp(want[i]) != 0 || !v.Release.Equal(a.Schedules[i].Release) || v.Released || v.Denom != a.PayDenom || v.Auctioneer != a.Auctioneer {
				vs = append(vs, viol("C09/instalment", "auction %d instalment %d/%d: recorded %s%s at %s (released=%v), expected %s at %s for proceeds %s and weight %s",
					a.ID, i+1, len(vq), v.Amt, v.Denom, tfmt(v.Release), v.Released, want[i], tfmt(a.Schedules[i].Release), proceeds, mstr(a.Schedules[i].WeightM)))
			}
		}
		if sum.Cmp(proceeds) != 0 {
			vs = append(vs, viol("C09/instalments-sum", "auction %d: instalments sum to %s, proceeds are %s", a.ID, sum, proceeds))
		}
		if pre.BalOf(a.PayingAddr, a.PayDenom).Sign() > 0 && post.BalOf(a.PayingAddr, a.PayDenom).Sign() != 0 {
			vs = append(vs, viol("C09/proceeds-left-behind", "auction %d: %s%s stays in the paying escrow after settlement", a.ID, post.BalOf(a.PayingAddr, a.PayDenom), a.PayDenom))
		}
		h.Label("c09:settled-with-schedule")
		if len(a.Schedules) >= 2 {
			exact := true
			for _, s := range a.Schedules {
				if new(big.Int).Mod(bmul(proceeds, s.WeightM), E18).Sign() != 0 {
					exact = false
				}
			}
			if !exact {
				h.Label("c09:>=2-instalments-not-divisible")
			}
			if proceeds.Sign() == 0 {
				h.Label("c09:zero-proceeds")
			} else if proceeds.Cmp(bi(int64(len(a.Schedules)))) < 0 {
				h.Label("c09:proceeds<instalments")
			}
		}
	}
	if st.Op.Kind == OpBlock && st.Res.OK {
		for _, a := range pre.Auctions {
			if a.Status != types.AuctionStatusVesting {
				continue
			}
			// transfers out of the vesting escrow in this block
			var outs []*big.Int
			for _, x := range st.Xfers {
				if x.From == a.VestingAddr {
					if x.To != a.Auctioneer || x.Denom != a.PayDenom {
						vs = append(vs, viol("C09/vesting-paid-to-wrong-party", "block %s: vesting escrow of auction %d sent %s", tfmt(t), a.ID, x))
					}
					outs = append(outs, x.Amt)
				}
			}
			var wantOuts []*big.Int
			skipped := 0
			postVQ := post.VQOf(a.ID)
			for i, v := range pre.VQOf(a.ID) {
				if i >= len(postVQ) {
					vs = append(vs, viol("C09/instalment-removed", "auction %d lost instalment %d", a.ID, i))
					continue
				}
				pv := postVQ[i]
				if pv.Amt.Cmp(v.Amt) != 0 || !pv.Release.Equal(v.Release) {
					vs = append(vs, viol("C09/instalment-rewritten", "auction %d instalment %d changed: %s -> %s", a.ID, i, v.Canon(), pv.Canon()))
				}
				due := !v.Release.After(t)
				switch {
				case v.Released:
					if !pv.Released {
						vs = append(vs, viol("C09/released-flag-cleared", "auction %d instalment %d lost its released flag", a.ID, i))
					}
				case due:
					if !pv.Released {
						vs = append(vs, viol("C09/not-released-when-due", "block %s: instalment %d of auction %d (release %s, %s%s) was not released", tfmt(t), i, a.ID, tfmt(v.Release), v.Amt, v.Denom))
					} else {
						m.paid[vqKey(v)]++
						if v.Amt.Sign() > 0 {
							wantOuts = append(wantOuts, v.Amt)
						}
						skipped++
					}
				default:
					if pv.Released {
						vs = append(vs, viol("C09/released-early", "block %s: instalment %d of auction %d was released before its release time %s", tfmt(t), i, a.ID, tfmt(v.Release)))
					}
				}
			}
			if skipped >= 2 {
				h.Label("c09:block-skips-several-releases")
			}
			if skipped >= 1 {
				h.Label("c09:release")
			}
			if !sameInts(outs, wantOuts) {
				vs = append(vs, viol("C09/payout-mismatch", "block %s: vesting escrow of auction %d paid %v to the auctioneer, instalments due in this block are %v", tfmt(t), a.ID, outs, wantOuts))
			}
		}
	}
	// outside block processing nothing leaves a vesting escrow
	if st.Op.Kind != OpBlock {
		for _, x := range st.Xfers {
			if _, role, ok := EscrowRole(post, x.From); ok && role == "vesting" {
				vs = append(vs, viol("C09/vesting-paid-outside-block", "step #%d (%s): %s", st.Idx, st.Op.Kind, x))
			}
		}
	}
	return vs
}

func sameInts(a, b []*big.Int) bool {
	if len(a) != len(b) {
		return false
	}
	for i := range a {
		if a[i].Cmp(b[i]) != 0 {
			return false
		}
	}
	return true
}

func (m *monC09) Final(h *History) []Violation {
	var vs []Violation
	if len(h.Steps) == 0 {
		return nil
	}
	last := h.Steps[len(h.Steps)-1].Post
	for _, a := range last.Auctions {
		if a.Status != types.AuctionStatusFinished || len(a.Schedules) == 0 {
			continue
		}
		sum := new(big.Int)
		for _, v := range last.VQOf(a.ID) {
			sum.Add(sum, v.Amt)
			if !v.Released {
				vs = append(vs, viol("C09/finished-with-unreleased", "auction %d is finished but instalment %s is unreleased", a.ID, v.Canon()))
			}
			if m.paid[vqKey(v)] != 1 {
				vs = append(vs, viol("C09/paid-count", "auction %d instalment at %s was paid %d times", a.ID, tfmt(v.Release), m.paid[vqKey(v)]))
			}
		}
		h.Label("c09:finished-after-vesting")
	}
	return vs
}

// CfgC09 is the Engine K configuration of C09.
func CfgC09() PropCfg {
	w := DefaultWeights()
	w.Block, w.PlaceBid, w.ModifyBid = 34, 26, 6
	w.ManyInstalmentsPct = 12
	w.PerturbPct = 5
	w.FaultBlock = 3 // an instalment whose transfer fails stays owed
	return PropCfg{ID: "C09", Weights: w, MinOps: 10, MaxOps: 50, DrivePct: 90,
		New: func() Monitor { return &monC09{} },
		NonTrivial: func(h *History) bool { return hasLabel(h, "c09:>=2-instalments-not-divisible") },
		Rule: "K: full histories with schedules of 0..100 instalments (constructed weights: equal 1/n shares, random 18-digit cuts, percent cuts), proceeds from 0 and dust to 1e33, block times on / around / skipping several release instants. At settlement the recorded instalments must equal floor(proceeds*w_i) with the remainder on the last, sum exactly to the coins moved into the vesting escrow, at the schedule's release times; in every block each unreleased instalment with release <= t of an auction that is vesting at block start is paid to the auctioneer exactly (ordered transfer list out of the vesting escrow == due instalments) and never again; no schedule => everything paid at settlement. D: schedules x proceeds directly through ApplyVestingSchedules. Non-trivial = >=2 instalments and proceeds*weight not integral.",
	}
}

// ---------------------------------------------------------------------------------------------
// C11 — bids can only grow, only by their owner, and are never removed.
// ---------------------------------------------------------------------------------------------
type monC11 struct {
	chain map[string]int
	// ignoredDue: auctions that were open and due (block time >= current end time) at the last
	// processed block and that the block neither settled nor extended: they are not open any more
	// in the sense of the property, whatever their recorded status says.
	ignoredDue map[uint64]bool
}

func (m *monC11) Step(h *History, st *Step) []Violation {
	var vs []Violation
	if st.Op.Kind == OpBlock && st.Res.OK {
		m.ignoredDue = map[uint64]bool{}
		for _, a := range st.Pre.Auctions {
			pa := st.Post.Auction(a.ID)
			if a.Status == types.AuctionStatusStarted && !a.LastEnd().After(st.Now) && pa != nil && pa.Status == types.AuctionStatusStarted && len(pa.EndTimes) == len(a.EndTimes) {
				m.ignoredDue[a.ID] = true
			}
		}
	}
	if st.Op.Kind == OpModifyBid && st.Res.OK && m.ignoredDue[st.Op.Auction] {
		if a := st.Pre.Auction(st.Op.Auction); a != nil {
			vs = append(vs, viol("C11/modified-after-end-time", "step #%d: modification %s was accepted although a block at or after the auction's current end time %s has already been processed (the auction is recorded as %s)", st.Idx, st.Op.String(), tfmt(a.LastEnd()), a.Status))
			return vs
		}
	}
	if m.chain == nil {
		m.chain = map[string]int{}
	}
	pre, post := st.Pre, st.Post
	// no operation deletes a bid; identity fields never change; reservation never drops while open
	for _, ob := range pre.Bids {
		nb := post.Bid(ob.Auction, ob.ID)
		if nb == nil {
			vs = append(vs, viol("C11/bid-removed", "step #%d (%s): bid %d of auction %d disappeared", st.Idx, st.Op.Kind, ob.ID, ob.Auction))
			continue
		}
		if nb.Bidder != ob.Bidder || nb.Type != ob.Type || nb.Denom != ob.Denom {
			vs = append(vs, viol("C11/bid-identity-changed", "step #%d (%s): %s -> %s", st.Idx, st.Op.Kind, ob.Canon(), nb.Canon()))
		}
		isTarget := st.Op.Kind == OpModifyBid && st.Res.OK && st.Op.Auction == ob.Auction && st.Op.BidID == ob.ID
		if !isTarget && (nb.PriceM.Cmp(ob.PriceM) != 0 || nb.Amt.Cmp(ob.Amt) != 0) {
			vs = append(vs, viol("C11/bid-changed-without-modification", "step #%d (%s): %s -> %s", st.Idx, st.Op.Kind, ob.Canon(), nb.Canon()))
		}
	}
	if st.Op.Kind != OpModifyBid {
		return vs
	}
	a := pre.Auction(st.Op.Auction)
	ob := pre.Bid(st.Op.Auction, st.Op.BidID)
	if !st.Res.OK {
		return vs
	}
	if a == nil || ob == nil {
		vs = append(vs, viol("C11/modified-missing-bid", "step #%d: modification accepted for a missing auction/bid: %s", st.Idx, st.Op.String()))
		return vs
	}
	nb := post.Bid(st.Op.Auction, st.Op.BidID)
	exp := refModifyBid(pre, st.Op)
	// the funds conjunct is not part of C11; everything else must hold for an accepted change
	if !exp.Accept && exp.Reason != "funds-reserve" {
		vs = append(vs, viol("C11/accepted-against-rule/"+exp.Reason, "step #%d: modification %s was accepted although: %s (old bid %s, auction status %s, min price %s)", st.Idx, st.Op.String(), exp.Reason, ob.Canon(), a.Status, mOrNil(a.MinPriceM)))
		return vs
	}
	newP, newA := DecM(dec(st.Op.Price)), bigOf(st.Op.CoinAmount)
	if nb.PriceM.Cmp(newP) != 0 || nb.Amt.Cmp(newA) != 0 {
		vs = append(vs, viol("C11/stored-values", "step #%d: modification to price %s amount %s stored %s", st.Idx, st.Op.Price, st.Op.CoinAmount, nb.Canon()))
	}
	charge := bsub(nb.Req(a.PayDenom), ob.Req(a.PayDenom))
	signer := st.Op.SignerAddr()
	paid := bsub(pre.BalOf(signer, a.PayDenom), post.BalOf(signer, a.PayDenom))
	esc := bsub(post.BalOf(a.PayingAddr, a.PayDenom), pre.BalOf(a.PayingAddr, a.PayDenom))
	if paid.Cmp(charge) != 0 || esc.Cmp(charge) != 0 {
		vs = append(vs, viol("C11/charge", "step #%d: modification %s -> %s: required reservation grows by %s%s, bidder paid %s, escrow received %s", st.Idx, ob.Canon(), nb.Canon(), charge, a.PayDenom, paid, esc))
	}
	if charge.Sign() < 0 {
		vs = append(vs, viol("C11/reservation-lowered", "step #%d: reservation of bid %d/%d dropped by %s", st.Idx, ob.Auction, ob.ID, new(big.Int).Neg(charge)))
	}
	k := bidKey(ob.Auction, ob.ID)
	m.chain[k]++
	h.Label("c11:accepted-modification")
	nonInt := new(big.Int).Mod(nb.PriceM, E18).Sign() != 0
	if m.chain[k] >= 2 && nonInt {
		h.Label("c11:chain>=2-noninteger-price")
	}
	if nb.Type == types.BidTypeBatchMany && new(big.Int).Mod(bmul(nb.Amt, nb.PriceM), E18).Sign() != 0 {
		h.Label("c11:many-noninteger-product")
	}
	return vs
}

func (m *monC11) Final(h *History) []Violation { return nil }

// CfgC11 is the configuration of C11.
func CfgC11() PropCfg {
	w := DefaultWeights()
	w.CreateFixed, w.CreateBatch = 3, 10
	w.PlaceBid, w.ModifyBid, w.Block = 24, 40, 12
	w.PerturbPct = 8
	w.PoorPct = 25
	return PropCfg{ID: "C11", Weights: w, MinOps: 12, MaxOps: 60, DrivePct: 40,
		New: func() Monitor { return &monC11{} },
		NonTrivial: func(h *History) bool { return hasLabel(h, "c11:chain>=2-noninteger-price") },
		Rule: "K: chains of modifications per bid by the owner and by non-owners, new (price, amount) exactly at, one smallest unit below and above the old values, wrong denomination, missing bid, after close, on fixed-price auctions, poor signers. Accepted => no block at or after the auction's current end time has been processed without settling or extending it (open in time, not only by recorded status), signer == owner, auction open and batch, same denomination, price' >= price, amount' >= amount, one strictly, price' >= min bid price; identity fields unchanged; bidder's paying-coin delta == escrow delta == big-integer difference of the required reservations (ceilings). Every op: no bid key disappears, no bid changes except by its own accepted modification. Non-trivial = >=2 accepted modifications of one bid ending on a non-integer price.",
	}
}

// ---------------------------------------------------------------------------------------------
// C12 — only the auctioneer can cancel, only before opening, with a full refund.
// ---------------------------------------------------------------------------------------------
type monC12 struct {
	cancelled map[uint64]bool
}

func (m *monC12) Step(h *History, st *Step) []Violation {
	var vs []Violation
	if m.cancelled == nil {
		m.cancelled = map[uint64]bool{}
	}
	pre, post := st.Pre, st.Post
	for id := range m.cancelled {
		if a := post.Auction(id); a == nil || a.Status != types.AuctionStatusCancelled {
			vs = append(vs, viol("C12/not-permanent", "step #%d (%s): cancelled auction %d is no longer cancelled", st.Idx, st.Op.Kind, id))
		}
		if (st.Op.Kind == OpPlaceBid || st.Op.Kind == OpModifyBid || st.Op.Kind == OpCancel) && st.Op.Auction == id && st.Res.OK {
			vs = append(vs, viol("C12/op-on-cancelled-accepted", "step #%d: %s on cancelled auction %d was accepted", st.Idx, st.Op.Kind, id))
		}
	}
	if st.Op.Kind != OpCancel {
		return vs
	}
	a := pre.Auction(st.Op.Auction)
	signer := st.Op.SignerAddr()
	want := a != nil && ValidAddr(signer) && a.Auctioneer == signer && a.Status == types.AuctionStatusStandBy
	if a != nil {
		h.Label("c12:cancel-attempt-in-" + a.Status.String())
		if a.Auctioneer != signer {
			h.Label("c12:cancel-by-non-auctioneer")
		}
		if a.Start.Equal(st.Now) || a.Start.Add(-1).Equal(st.Now) || a.Start.Add(1).Equal(st.Now) {
			h.Label("c12:cancel-around-start-time")
		}
	}
	if st.Res.FaultHit != "" {
		// the refund transfer was made to fail: the cancellation must fail as a whole
		if st.Res.OK {
			vs = append(vs, viol("C12/bank-failure-swallowed", "step #%d: cancel of auction %d succeeded although its bank transfer %s failed", st.Idx, st.Op.Auction, st.Res.FaultHit))
		}
		return vs
	}
	if want != st.Res.OK {
		why := "missing auction"
		if a != nil {
			why = fmt.Sprintf("auctioneer=%s signer=%s status=%s", short(a.Auctioneer), short(signer), a.Status)
		}
		vs = append(vs, viol("C12/accept-mismatch", "step #%d: cancel of auction %d was %s, rule says %s (%s); impl error: %s", st.Idx, st.Op.Auction, okStr(st.Res.OK), okStr(want), why, firstLine(st.Res.Err)))
	}
	if !st.Res.OK || a == nil {
		return vs
	}
	if !a.Start.After(st.Now) {
		vs = append(vs, viol("C12/cancel-after-start-time", "step #%d: cancel of auction %d accepted at block time %s although its start time %s has passed (it must have opened in the first block at or after its start time)", st.Idx, a.ID, tfmt(st.Now), tfmt(a.Start)))
	}
	m.cancelled[a.ID] = true
	h.Label("c12:cancelled")
	pa := post.Auction(a.ID)
	escrowBefore := pre.BalOf(a.SellingAddr, a.SellDenom)
	got := bsub(post.BalOf(a.Auctioneer, a.SellDenom), pre.BalOf(a.Auctioneer, a.SellDenom))
	if escrowBefore.Cmp(a.SellAmt) > 0 {
		h.Label("c12:cancel-with-donation-in-escrow")
	}
	if got.Cmp(escrowBefore) != 0 || got.Cmp(a.SellAmt) < 0 {
		vs = append(vs, viol("C12/refund", "cancel of auction %d: auctioneer received %s%s, escrow held %s (offered %s)", a.ID, got, a.SellDenom, escrowBefore, a.SellAmt))
	}
	if post.BalOf(a.SellingAddr, a.SellDenom).Sign() != 0 {
		vs = append(vs, viol("C12/escrow-not-emptied", "cancel of auction %d: selling escrow still holds %s%s", a.ID, post.BalOf(a.SellingAddr, a.SellDenom), a.SellDenom))
	}
	if pa.Status != types.AuctionStatusCancelled {
		vs = append(vs, viol("C12/status", "cancel of auction %d accepted but status is %s", a.ID, pa.Status))
	}
	if !pa.IsBatch() && (pa.Remaining.Sign() != 0 || pa.RemainingDenom != a.SellDenom) {
		vs = append(vs, viol("C12/remainder-not-zeroed", "cancel of auction %d: published remainder is %s%s", a.ID, pa.Remaining, pa.RemainingDenom))
	}
	return vs
}

func (m *monC12) Final(h *History) []Violation { return nil }

// CfgC12 is the configuration of C12.
func CfgC12() PropCfg {
	w := DefaultWeights()
	w.Cancel, w.Block, w.Donate, w.PlaceBid, w.ModifyBid = 26, 24, 8, 14, 4
	w.CreateFixed, w.CreateBatch = 10, 10
	w.MaxAuctions = 5
	w.DonateWaitingPct = 60
	return PropCfg{ID: "C12", Weights: w, MinOps: 8, MaxOps: 50, DrivePct: 30,
		New: func() Monitor { return &monC12{} },
		NonTrivial: func(h *History) bool {
			return hasLabel(h, "c12:cancelled") && (hasLabel(h, "c12:cancel-by-non-auctioneer") || hasLabel(h, "c12:cancel-attempt-in-AUCTION_STATUS_STARTED", "c12:cancel-attempt-in-AUCTION_STATUS_VESTING", "c12:cancel-attempt-in-AUCTION_STATUS_FINISHED", "c12:cancel-attempt-in-AUCTION_STATUS_CANCELLED"))
		},
		Rule: "K: cancel attempts by every account (auctioneer, other users, malformed address) on auctions in every status (waiting, open incl. created-open, vesting, finished, already cancelled, missing) at instants around the start time, with third-party donations in the selling escrow. Accepted <=> auction exists, signer == auctioneer, status waiting (read just before); after an accepted cancel the auctioneer's selling-coin delta == the whole escrow content (offered + donated), escrow empty, published remainder zero, status cancelled in every later observation, later bids/cancels on it rejected. Non-trivial = an accepted cancel plus a refused attempt by a non-auctioneer or in a non-waiting status in the same history.",
	}
}

// ---------------------------------------------------------------------------------------------
// C13 — extended rounds follow the anti-sniping rule and are bounded.
// ---------------------------------------------------------------------------------------------
type monC13 struct{}

func (monC13) Step(h *History, st *Step) []Violation {
	var vs []Violation
	pre, post := st.Pre, st.Post
	t := st.Now
	for _, pa := range post.Auctions {
		if !pa.IsBatch() {
			continue
		}
		if uint32(len(pa.EndTimes)) > pa.MaxRounds+1 {
			vs = append(vs, viol("C13/too-many-end-times", "auction %d has %d end times with max extended rounds %d", pa.ID, len(pa.EndTimes), pa.MaxRounds))
		}
		ba := pre.Auction(pa.ID)
		if ba == nil {
			continue
		}
		// end times are append-only
		for i := range ba.EndTimes {
			if i >= len(pa.EndTimes) || !pa.EndTimes[i].Equal(ba.EndTimes[i]) {
				vs = append(vs, viol("C13/end-times-rewritten", "step #%d: auction %d end times %v -> %v", st.Idx, pa.ID, ba.EndTimes, pa.EndTimes))
				break
			}
		}
		evaluated := st.Op.Kind == OpBlock && st.Res.OK && ba.Status == types.AuctionStatusStarted && !ba.LastEnd().After(t)
		if !evaluated {
			if len(pa.EndTimes) != len(ba.EndTimes) {
				vs = append(vs, viol("C13/extended-without-evaluation", "step #%d (%s): auction %d got a new end time outside an end-time evaluation", st.Idx, st.Op.Kind, pa.ID))
			}
			if pre.MatchedLen[pa.ID] != post.MatchedLen[pa.ID] {
				vs = append(vs, viol("C13/matched-count-changed-outside-evaluation", "step #%d (%s): recorded matched count of auction %d changed %d -> %d", st.Idx, st.Op.Kind, pa.ID, pre.MatchedLen[pa.ID], post.MatchedLen[pa.ID]))
			}
			continue
		}
		n := len(ba.EndTimes)
		M := int(ba.MaxRounds)
		last := pre.MatchedLen[pa.ID]
		cur := post.MatchedLen[pa.ID]
		ref := RefMatch(pre.BidsOf(pa.ID), CapsOf(pre, pa.ID), ba.SellAmt, ba.PayDenom)
		if cur < int64(ref.LenLo) || cur > int64(ref.LenHi) {
			vs = append(vs, viol("C13/matched-count", "block %s: auction %d recorded %d matched bids; the reference clearing (price %s) admits between %d and %d", tfmt(t), pa.ID, cur, mOrNil(ref.PStarM), ref.LenLo, ref.LenHi))
		}
		extended := len(pa.EndTimes) == n+1
		settled := pa.Status != types.AuctionStatusStarted
		var wantExtend, either bool
		why := ""
		switch {
		case n == M+1:
			wantExtend, why = false, "round limit reached"
			h.Label("c13:eval-at-round-limit")
		case last == 0:
			wantExtend, why = true, "no matched bids recorded at the previous end time"
			h.Label("c13:eval-nothing-to-compare")
		default:
			// extend <=> 1 - cur/last >= rate, i.e. (last - cur) * 1e18 >= rate_m * last
			lhs := bmul(bi(last-cur), E18)
			rhs := bmul(ba.RateM, bi(last))
			diff := bsub(lhs, rhs) // scaled by last*1e18
			// the module works at 18-decimal resolution: when 1 - cur/last is not exactly the rate but
			// closer to it than 1e-18, either decision is accepted; exact equality must extend
			tol := bi(last)
			if diff.Sign() != 0 && new(big.Int).Abs(diff).Cmp(tol) < 0 {
				either = true
				h.Label("c13:eval-at-rate-boundary")
			}
			wantExtend = diff.Sign() >= 0
			why = fmt.Sprintf("1 - %d/%d vs rate %s", cur, last, mstr(ba.RateM))
			h.Label("c13:eval-compared-counts")
		}
		if extended == settled {
			vs = append(vs, viol("C13/neither-or-both", "block %s: auction %d at its end time: extended=%v settled=%v", tfmt(t), pa.ID, extended, settled))
			continue
		}
		if !either && extended != wantExtend {
			vs = append(vs, viol("C13/decision", "block %s: auction %d (end times %d, max rounds %d, previous count %d, current count %d) was %s; the rule says %s (%s)",
				tfmt(t), pa.ID, n, M, last, cur, map[bool]string{true: "EXTENDED", false: "SETTLED"}[extended], map[bool]string{true: "extend", false: "settle"}[wantExtend], why))
		}
		if extended {
			wantEnd := ba.LastEnd().Add(time.Duration(pre.Params.ExtendedPeriod) * 24 * time.Hour)
			if !pa.LastEnd().Equal(wantEnd) {
				vs = append(vs, viol("C13/appended-end-time", "auction %d extended: new end %s, expected previous end %s + %d day(s) = %s", pa.ID, tfmt(pa.LastEnd()), tfmt(ba.LastEnd()), pre.Params.ExtendedPeriod, tfmt(wantEnd)))
			}
			if pa.Terms() != ba.Terms() || zeroIfNil(pa.MatchedPriceM).Cmp(zeroIfNil(ba.MatchedPriceM)) != 0 {
				vs = append(vs, viol("C13/extension-changed-record", "auction %d extension changed more than the end times: %s -> %s", pa.ID, ba.Canon(), pa.Canon()))
			}
			h.Label("c13:extended")
			if pre.Params.ExtendedPeriod == 0 {
				h.Label("c13:extended-with-period-0")
			}
		} else {
			h.Label("c13:settled")
			if n > 1 {
				h.Label("c13:settled-after-extension")
				if last > 0 && n < M+1 {
					h.Label("c13:settled-by-rate-after-extension")
				}
			}
		}
	}
	return vs
}

func (monC13) Final(h *History) []Violation { return nil }

// CfgC13 is the configuration of C13.
func CfgC13() PropCfg {
	w := DefaultWeights()
	w.CreateFixed, w.CreateBatch = 1, 12
	w.PlaceBid, w.ModifyBid, w.UpdateAllowed, w.Block = 34, 10, 8, 26
	w.PerturbPct = 4
	w.MaxAuctions = 3
	return PropCfg{ID: "C13", Weights: w, MinOps: 14, MaxOps: 70, DrivePct: 95,
		New: func() Monitor { return monC13{} },
		NonTrivial: func(h *History) bool {
			return hasLabel(h, "c13:extended") && hasLabel(h, "c13:settled-after-extension") && hasLabel(h, "c13:eval-compared-counts")
		},
		Rule: "K: batch auctions with max rounds 0..30, rates engineered to equal 1-cur/last of small count pairs (and +-1e-18), extension period 0/1/2/7 days, order books that change between end times (outbidding, cap changes, modifications), blocks on each successive end time, usually driven to settlement. At each end-time evaluation: count recorded now within the reference matching bounds; n == M+1 => settle, previous count 0 => extend, else extend <=> 1 - cur/last >= rate in exact rationals (either decision accepted only when the exact value differs from the rate by less than 1e-18 without being equal); an extension appends exactly previous end + period*24h and changes nothing else; never more than M+1 end times; counts and end times never change outside an evaluation. Non-trivial = an extension and a later settlement with a comparison against a non-zero previous count.",
	}
}
