package world

import (
	"context"
	"errors"
	"fmt"
	"math/big"
	"os"
	"strings"
	"testing"
	"time"

	"cosmossdk.io/core/appmodule"
	sdk "github.com/cosmos/cosmos-sdk/types"
	"pgregory.net/rapid"

	"github.com/tendermint/fundraising/x/fundraising/types"
)

// C07 — block processing never fails, and never hides a failure.

// ---- bank fault injection ---------------------------------------------------------------------
// One send restriction is installed per application (it cannot be removed); it is steered by this
// harness-side plan. BaseSendKeeper copies share the restriction, so it also intercepts the
// fundraising keeper's SendCoins and every output of InputOutputCoins.

type faultPlan struct {
	active bool
	count  int
	failAt int // -1: only count
	hit    string
}

var bankFault faultPlan

var errInjected = errors.New("verif: injected bank failure")

func faultRestriction(ctx context.Context, from, to sdk.AccAddress, amt sdk.Coins) (sdk.AccAddress, error) {
	if !bankFault.active {
		return to, nil
	}
	i := bankFault.count
	bankFault.count++
	if i == bankFault.failAt {
		bankFault.hit = fmt.Sprintf("%s->%s %s", from.String(), to.String(), amt.String())
		return to, errInjected
	}
	return to, nil
}

// InstallFaultRestriction appends the steerable send restriction to the application's bank keeper.
func InstallFaultRestriction(b *Base) {
	b.App.BankKeeper.AppendSendRestriction(faultRestriction)
}

func runBlockOn(b *Base, ctx sdk.Context) (err error, panicked string) {
	mod := b.App.ModuleManager.Modules[types.ModuleName].(appmodule.HasBeginBlocker)
	defer func() {
		if r := recover(); r != nil {
			panicked = fmt.Sprint(r)
		}
	}()
	return mod.BeginBlock(ctx), ""
}

// countBlockTransfers returns the number of bank transfers block processing at time t would make
// (dry run on a discarded branch; 0 when it would fail anyway).
func countBlockTransfers(w *World, t time.Time) int {
	if !t.After(w.Now) {
		return 0
	}
	dry, _ := w.Ctx.WithBlockTime(t).WithBlockHeight(w.Height + 1).CacheContext()
	bankFault = faultPlan{active: true, failAt: -1}
	err, pan := runBlockOn(w.B, dry)
	m := bankFault.count
	bankFault = faultPlan{}
	if err != nil || pan != "" {
		return 0
	}
	return m
}

// faultEnumBlock re-runs the block that is about to be executed once per bank transfer it
// performs, with a failure injected into that transfer; block processing must report an error
// whichever auction the failing transfer belongs to.
func faultEnumBlock(h *History, o Op) []Violation {
	if o.Kind != OpBlock {
		return nil
	}
	w := h.W
	pre := h.lastPost(nil)
	if pre == nil {
		return nil
	}
	base := w.Ctx.WithBlockTime(o.Time).WithBlockHeight(w.Height + 1)
	// dry run: count the transfers
	dry, _ := base.CacheContext()
	bankFault = faultPlan{active: true, failAt: -1}
	err, pan := runBlockOn(w.B, dry)
	m := bankFault.count
	bankFault = faultPlan{}
	if err != nil || pan != "" || m == 0 {
		return nil // a failing block is reported by the main execution
	}
	// which auctions have something due, in iteration order
	var due []uint64
	for _, a := range pre.Auctions {
		if dueInBlock(pre, a, o.Time) && a.Status != types.AuctionStatusStandBy {
			due = append(due, a.ID)
		}
	}
	h.Label("c07:fault-enumerated-blocks")
	if len(due) >= 2 {
		h.Label("c07:fault-block-with->=2-due-auctions")
	}
	var vs []Violation
	idx := make([]int, 0, m)
	if m <= 16 {
		for i := 0; i < m; i++ {
			idx = append(idx, i)
		}
	} else { // sampled: first, last and a spread in between
		for i := 0; i < 16; i++ {
			idx = append(idx, i*(m-1)/15)
		}
		h.Label("c07:fault-sampled")
	}
	for _, i := range idx {
		cc, _ := base.CacheContext()
		bankFault = faultPlan{active: true, failAt: i}
		err, pan := runBlockOn(w.B, cc)
		hit := bankFault.hit
		bankFault = faultPlan{}
		h.Label("c07:fault-injections")
		// does the failing transfer belong to an auction that is not the last one due?
		notLast := false
		for k, id := range due {
			a := pre.Auction(id)
			if strings.Contains(hit, a.SellingAddr) || strings.Contains(hit, a.PayingAddr) || strings.Contains(hit, a.VestingAddr) {
				if k < len(due)-1 {
					notLast = true
				}
			}
		}
		if notLast {
			h.Label("c07:fault-in-auction-that-is-not-last")
		}
		if pan != "" {
			vs = append(vs, viol("C07/fault-panic", "block %s with a failure injected into transfer %d/%d (%s) panicked: %s", tfmt(o.Time), i+1, m, hit, pan))
			continue
		}
		if err == nil {
			vs = append(vs, viol("C07/fault-hidden", "block %s: a failure injected into transfer %d of %d (%s) was not reported: block processing returned nil (auctions due in this block: %v, failing one is not the last: %v)", tfmt(o.Time), i+1, m, hit, due, notLast))
		}
	}
	return vs
}

// monC07 classifies the blocks; the failing-block oracle itself is PropCfg.ReportHalt.
type monC07 struct{}

func (monC07) Step(h *History, st *Step) []Violation {
	if st.Op.Kind != OpBlock {
		if st.Res.Panic != "" {
			h.Label("c07:message-handler-panicked(recovered-by-baseapp)")
		}
		return nil
	}
	term := false
	for _, a := range st.Pre.Auctions {
		if a.Status == types.AuctionStatusFinished || a.Status == types.AuctionStatusCancelled {
			term = true
		}
	}
	if term {
		h.Label("c07:block-with-terminal-auction-present")
	}
	for _, tr := range st.Trans {
		if tr.Settled {
			if len(st.Pre.BidsOf(tr.ID)) == 0 {
				h.Label("c07:settled-empty-book")
			}
			if rec := h.Settle[tr.ID]; rec != nil && rec.Ref != nil && !rec.Ref.Sold && len(st.Pre.BidsOf(tr.ID)) > 0 {
				h.Label("c07:settled-nothing-sold")
			}
		}
		if tr.Extended && st.Pre.Params.ExtendedPeriod == 0 {
			h.Label("c07:extension-with-period-0")
		}
	}
	if !st.Res.OK {
		h.Label("c07:block-failed")
	}
	return nil
}

func (monC07) Final(h *History) []Violation { return nil }

// blockFailSig classifies a failing block for the known-findings list.
func blockFailSig(res Result) string {
	if res.Panic != "" {
		if strings.Contains(res.Panic, "Int overflow") || strings.Contains(res.Panic, "overflow") {
			if strings.Contains(res.Panic, "types.Match") || strings.Contains(res.Panic, "CalculateBatchAllocation") {
				return "C07/block-panicked/int-overflow-in-matching"
			}
			return "C07/block-panicked/int-overflow"
		}
		return "C07/block-panicked"
	}
	if strings.Contains(res.Err, "after 10000-01-01") || strings.Contains(res.Err, "timestamp") && strings.Contains(res.Err, "encod") {
		return "C07/block-failed/end-time-beyond-year-9999"
	}
	return "C07/block-failed"
}

// CfgC07 is the Engine K configuration of C07.
func CfgC07() PropCfg {
	w := DefaultWeights()
	w.Block, w.PlaceBid, w.ModifyBid, w.Cancel = 40, 22, 6, 6
	w.CreateFixed, w.CreateBatch = 10, 10
	w.MaxAuctions = 5
	w.PerturbPct = 6
	w.Reimport = 5
	w.Extreme = Tier() == "thorough" || os.Getenv("VERIF_EXTREME") == "1"
	return PropCfg{ID: "C07", Weights: w, MinOps: 12, MaxOps: 70, DrivePct: 80,
		New:        func() Monitor { return monC07{} },
		ReportHalt: true,
		PreOp:      faultEnumBlock,
		NonTrivial: func(h *History) bool {
			return hasLabel(h, "c07:block-with-terminal-auction-present") || hasLabel(h, "c07:fault-in-auction-that-is-not-last")
		},
		Rule: "K: multi-auction histories continued well past terminal states (blocks keep coming after finish/cancel), empty order books, nothing-sold books, zero proceeds, extension period 0; every block goes through the module's BeginBlock and must return nil without panicking. Fault enumeration: before each block that performs m >= 1 bank transfers (counted by a dry run), the block is re-run on a branch once per transfer (all m when m <= 16, 16 spread samples otherwise) with a failure injected into exactly that transfer through a bank send restriction; block processing must return a non-nil error whichever auction the transfer belongs to. A: the same kind of logs delivered as signed transactions through FinalizeBlock + Commit on a fresh application; every FinalizeBlock must succeed. Thorough tier: labelled extreme class (amounts up to 2^200, prices 1e-18..1e18). Non-trivial = a block processed with a finished/cancelled auction present, or an injected failure in an auction that is not the last one iterated.",
	}
}

func c07Weights() Weights { return CfgC07().Weights }

// RunC07A is the application-level part: FinalizeBlock must succeed for every block.
func RunC07A(t *testing.T) {
	const prop = "C07"
	col := GlobalCollector(prop)
	col.AddRule(CfgC07().Rule)
	allow := caseLimiter(0)
	body := func(rt *rapid.T, ops []Op) {
		if rt != nil && !allow() {
			return
		}
		labels := map[string]int{}
		if rt != nil {
			h, g := genLogK(rt, c07Weights(), 12, 60, 85)
			ops = h.OpsLog()
			for k, v := range g.Labels {
				labels["gen/"+k] = v
			}
			for k, v := range h.Labels {
				labels[k] = v
			}
		}
		a, err := NewAppA()
		if err != nil {
			panic(err)
		}
		a.RunLog(ops)
		nt := false
		snap := TakeSnap(a.B, a.Ctx())
		for _, au := range snap.Auctions {
			if au.Status == types.AuctionStatusFinished || au.Status == types.AuctionStatusCancelled {
				nt = true
				labels["c07:A-history-with-terminal-auction"]++
			}
		}
		labels["c07:A-blocks"] += len(a.Blocks)
		if a.Failed != "" {
			sig := "C07/finalize-block-failed"
			if strings.Contains(a.Failed, "overflow") {
				sig = "C07/block-panicked/int-overflow"
			}
			if strings.Contains(a.Failed, "after 10000-01-01") {
				sig = "C07/block-failed/end-time-beyond-year-9999"
			}
			v := viol(sig, "the application failed to process a block: %s", a.Failed)
			if f, ok := IsKnown(prop, v.Sig); ok {
				col.Known(f)
			} else {
				WriteReplay(os.Getenv("VERIF_REPLAY_OUT"), Replay{Property: prop, Engine: "A", Signature: v.Sig, Message: v.Msg, Ops: ops})
				col.mu.Lock()
				col.Violations++
				col.mu.Unlock()
				var sb strings.Builder
				for _, o := range ops {
					sb.WriteString("  " + o.String() + "\n")
				}
				msg := fmt.Sprintf("VIOLATION %s [%s]\n%s\nhistory:\n%s", prop, v.Sig, v.Msg, sb.String())
				if rt != nil {
					rt.Fatalf("%s", msg)
				} else {
					t.Errorf("%s", msg)
				}
			}
		}
		if rt != nil {
			var sample any
			if nt {
				var lines []string
				for _, o := range ops {
					lines = append(lines, o.String())
				}
				sample = map[string]any{"engine": "A", "ops": lines}
			}
			col.Case(map[string]any{"engine": "A", "ops": ops}, nt, labels, sample)
		}
	}
	if p := os.Getenv("VERIF_REPLAY_FILE"); p != "" {
		r, err := ReadReplay(p)
		if err != nil {
			t.Fatal(err)
		}
		if r.Engine == "A" {
			body(nil, r.Ops)
		}
		return
	}
	rapid.Check(t, func(rt *rapid.T) { body(rt, nil) })
}

// overflowGuard reports whether executing the bid/modify operation could later overflow the
// 315-bit decimal in the matching (known finding F16): worth*1e36/lowestPriceMantissa >= 2^315.
func overflowGuard(s *Snap, o Op) bool {
	if o.Kind != OpPlaceBid && o.Kind != OpModifyBid {
		return false
	}
	a := s.Auction(o.Auction)
	if a == nil || !a.IsBatch() || o.CoinDenom != a.PayDenom {
		return false
	}
	defer func() { _ = recover() }()
	w := bigOf(o.CoinAmount)
	lim := new(big.Int).Lsh(bigOne, 314)
	return bmul(w, pow10(36)).Cmp(bmul(lim, a.MinPriceM)) >= 0
}
