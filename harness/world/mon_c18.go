package world

import (
	"fmt"
	"strings"
	"time"

	"github.com/tendermint/fundraising/x/fundraising/types"
)

// ---------------------------------------------------------------------------------------------
// C18 — messages are accepted exactly under their documented preconditions; a rejected message
// leaves all module state and all balances unchanged.
// ---------------------------------------------------------------------------------------------
type monC18 struct{}

func isMessage(kind string) bool {
	switch kind {
	case OpCreateFixed, OpCreateBatch, OpCancel, OpPlaceBid, OpModifyBid, OpMsgAddAllowed, OpUpdateParams:
		return true
	}
	return false
}

func (monC18) Step(h *History, st *Step) []Violation {
	var vs []Violation
	if !isMessage(st.Op.Kind) {
		return nil
	}
	if st.Idx == 0 && st.Op.Kind == OpUpdateParams {
		// the prologue parameters are part of the case's genesis, still checked below
	}
	exp := RefAccept(st.Pre, st.Op, st.Now, h.W.B.GovAddr)
	if st.Res.Panic != "" {
		h.Label("c18:handler-panicked")
	}
	if st.Res.FaultHit != "" {
		// a bank transfer of this message was made to fail: it must be rejected, whatever the preconditions say
		if st.Res.OK {
			return []Violation{viol("C18/bank-failure-swallowed/"+st.Op.Kind, "step #%d: %s was accepted although its bank transfer %s failed", st.Idx, st.Op.String(), st.Res.FaultHit)}
		}
		h.Label("c18:rejected/" + st.Op.Kind + "/injected-bank-failure")
		return nil
	}
	if exp.Accept != st.Res.OK {
		vs = append(vs, viol("C18/accept-mismatch/"+st.Op.Kind+"/"+orStr(exp.Reason, "should-accept"),
			"step #%d at %s: %s was %s; the documented preconditions say %s (%s). impl error: %s", st.Idx, tfmt(st.Now), st.Op.String(), okStr(st.Res.OK), okStr(exp.Accept), orStr(exp.Reason, "all preconditions hold"), firstLine(st.Res.Err)))
	}
	if st.Res.OK {
		h.Label("c18:accepted/" + st.Op.Kind)
	} else {
		h.Label("c18:rejected/" + st.Op.Kind + "/" + exp.Reason)
		// rejected => nothing changed
		if a, b := st.Pre.ModuleCanon(true), st.Post.ModuleCanon(true); a != b {
			vs = append(vs, viol("C18/rejected-message-changed-state", "step #%d: rejected %s changed module state:\n%s", st.Idx, st.Op.String(), diffLines(a, b)))
		}
		if a, b := st.Pre.BalancesCanon(), st.Post.BalancesCanon(); a != b {
			vs = append(vs, viol("C18/rejected-message-changed-balances", "step #%d: rejected %s changed balances:\n%s", st.Idx, st.Op.String(), diffLines(a, b)))
		}
	}
	return vs
}

func (monC18) Final(h *History) []Violation { return nil }

func orStr(s, d string) string {
	if s == "" {
		return d
	}
	return s
}

func diffLines(a, b string) string {
	am := map[string]bool{}
	for _, l := range strings.Split(a, "\n") {
		am[l] = true
	}
	bm := map[string]bool{}
	for _, l := range strings.Split(b, "\n") {
		bm[l] = true
	}
	var sb strings.Builder
	for _, l := range strings.Split(a, "\n") {
		if !bm[l] {
			sb.WriteString("- " + l + "\n")
		}
	}
	for _, l := range strings.Split(b, "\n") {
		if !am[l] {
			sb.WriteString("+ " + l + "\n")
		}
	}
	return sb.String()
}

// CfgC18 is the Engine K configuration of C18.
func CfgC18() PropCfg {
	w := DefaultWeights()
	w.PerturbPct = 45
	w.PoorPct = 35
	w.UpdateParams, w.MsgAddAllowed, w.Cancel = 5, 3, 6
	w.CreateFixed, w.CreateBatch = 10, 12
	w.MaxAuctions = 5
	return PropCfg{ID: "C18", Weights: w, MinOps: 12, MaxOps: 60, DrivePct: 30,
		New: func() Monitor { return monC18{} },
		NonTrivial: func(h *History) bool {
			n := 0
			for k := range h.Labels {
				if strings.HasPrefix(k, "c18:rejected/") {
					n++
				}
			}
			return n >= 2 && hasLabel(h, "c18:accepted/")
		},
		Rule: "K: every message type (create fixed/batch, cancel, place bid, modify bid, add allowed bidder, update params) in states reached by generated histories: a valid-by-construction message from the model, then with 45% probability 1-2 perturbations each aimed at one documented precondition and its boundary (malformed address, non-positive price, zero/negative/invalid coin, bid type 0/4/mismatch, unknown auction, each wrong status, wrong denom, price != start price by 1e-18, below min price by 1e-18, quantity > remainder by 1, over allowance by 1, not allow-listed, wrong signer, balance short (poor accounts), end <= start, end < now by 1ns, same denoms, schedule defects (weights off by 1e-18, release <= end, non-chronological incl. equal, 101 entries, zero weight), max rounds 31, non-positive rate, wrong authority, invalid fee coins). Oracle: predictive acceptance = conjunction of the documented preconditions evaluated on the resulting message (DESIGN.md Appendix A); accept/reject must agree; a rejected message leaves the complete module dump and every bank balance identical. Non-trivial = a history with accepted messages and rejections for >=2 different reasons.",
	}
}

// ---------------------------------------------------------------------------------------------
// C10 — only allow-listed accounts can bid; users cannot allow-list themselves.
// ---------------------------------------------------------------------------------------------
type monC10 struct{}

func allowCanon(s *Snap) string {
	var sb strings.Builder
	for _, a := range s.Allowed {
		sb.WriteString(a.Canon() + "\n")
	}
	return sb.String()
}

func (monC10) Step(h *History, st *Step) []Violation {
	var vs []Violation
	if v := rejectedAllowListCall("C10", st); v != nil {
		return v
	}
	pre, post := st.Pre, st.Post
	switch st.Op.Kind {
	case OpMsgAddAllowed:
		a := pre.Auction(st.Op.Auction)
		if a != nil {
			h.Label("c10:msg-add-allowed-on-existing-auction")
			if bigOf(st.Op.MaxBid).Sign() > 0 && bigOf(st.Op.MaxBid).Cmp(a.SellAmt) <= 0 {
				h.Label("c10:msg-add-allowed-keeper-call-would-succeed")
			}
		}
		if st.Res.OK {
			vs = append(vs, viol("C10/msg-add-allowed-accepted", "step #%d: MsgAddAllowedBidder %s was accepted in a default build", st.Idx, st.Op.String()))
		}
	case OpPlaceBid:
		bidder := st.Op.SignerAddr()
		listed := pre.Cap(st.Op.Auction, bidder) != nil
		if st.Res.OK && !listed {
			vs = append(vs, viol("C10/bid-by-unlisted-account", "step #%d: bid %s accepted although %s is not on the allow-list of auction %d", st.Idx, st.Op.String(), short(bidder), st.Op.Auction))
		}
		if !listed && pre.Auction(st.Op.Auction) != nil && pre.Auction(st.Op.Auction).Status == types.AuctionStatusStarted {
			h.Label("c10:unlisted-bid-on-open-auction")
			for _, ab := range pre.Allowed {
				if ab.Bidder == bidder {
					h.Label("c10:unlisted-here-but-listed-elsewhere")
				}
			}
		}
	}
	// no message may add or change an allow-list entry
	if isMessage(st.Op.Kind) && allowCanon(pre) != allowCanon(post) {
		vs = append(vs, viol("C10/message-changed-allow-list", "step #%d: message %s changed the allow-list:\n%s", st.Idx, st.Op.String(), diffLines(allowCanon(pre), allowCanon(post))))
	}
	// every stored bid belongs to an allow-listed account
	for _, b := range post.Bids {
		if pre.Bid(b.Auction, b.ID) == nil && post.Cap(b.Auction, b.Bidder) == nil {
			vs = append(vs, viol("C10/stored-bid-without-entry", "step #%d: stored %s has no allow-list entry", st.Idx, b.Canon()))
		}
	}
	return vs
}

func (monC10) Final(h *History) []Violation { return nil }

// CfgC10 is the Engine K configuration of C10.
func CfgC10() PropCfg {
	w := DefaultWeights()
	w.MsgAddAllowed, w.PlaceBid, w.AddAllowed = 14, 34, 8
	w.PerturbPct = 22
	w.MaxAuctions = 5
	return PropCfg{ID: "C10", Weights: w, MinOps: 10, MaxOps: 50, DrivePct: 20,
		New: func() Monitor { return monC10{} },
		NonTrivial: func(h *History) bool {
			return hasLabel(h, "c10:msg-add-allowed-keeper-call-would-succeed") || hasLabel(h, "c10:unlisted-here-but-listed-elsewhere")
		},
		Rule: "Test binary that links cmd/fundraisingd/cmd (same package init graph as the shipped binary, no -ldflags): K histories interleaving MsgAddAllowedBidder by any signer (auctioneer, bidder, outsider) on any auction with any amount, through the message router, with ordinary operations including bids by accounts listed on no / another auction and bids with every bid-type value. Every MsgAddAllowedBidder must be rejected, no message may change the allow-list dump, every accepted or stored bid's bidder must have an allow-list entry for that auction at that moment; plus signed MsgAddAllowedBidder transactions through FinalizeBlock (Engine A) and the root command tree. Non-trivial = the message targets an existing auction with an amount the keeper-level call would accept, or an unlisted bid by an account listed on another auction.",
	}
}

// ---------------------------------------------------------------------------------------------
// C19 — operations touch only their own auction and never alter agreed terms.
// ---------------------------------------------------------------------------------------------
type monC19 struct {
	bidTerms map[string]string
}

func (m *monC19) Step(h *History, st *Step) []Violation {
	var vs []Violation
	if m.bidTerms == nil {
		m.bidTerms = map[string]string{}
	}
	pre, post := st.Pre, st.Post
	// ---- frame: an operation on auction X leaves every other auction bit-identical ----
	target := int64(-1)
	switch st.Op.Kind {
	case OpCancel, OpPlaceBid, OpModifyBid, OpAddAllowed, OpUpdateAllowed, OpMsgAddAllowed, OpDonate:
		target = int64(st.Op.Auction)
	}
	for _, a := range pre.Auctions {
		if st.Op.Kind == OpBlock {
			// a block may change an auction only if that auction itself has something due
			if dueInBlock(pre, a, st.Now) {
				continue
			}
		} else if int64(a.ID) == target {
			continue
		}
		if x, y := pre.AuctionCanon(a.ID), post.AuctionCanon(a.ID); x != y {
			vs = append(vs, viol("C19/frame", "step #%d (%s%s): auction %d, which the operation does not concern, changed:\n%s", st.Idx, st.Op.Kind, targetStr(target), a.ID, diffLines(x, y)))
		}
	}
	if len(pre.Auctions) >= 2 {
		h.Label("c19:op-with->=2-auctions")
	}
	// ---- terms ----
	for _, a := range post.Auctions {
		if want, ok := h.Terms[a.ID]; ok && a.Terms() != want {
			vs = append(vs, viol("C19/terms-changed", "step #%d (%s): agreed terms of auction %d changed:\n was %s\n now %s", st.Idx, st.Op.Kind, a.ID, want, a.Terms()))
		}
		// escrow addresses are the derived ones
		if a.SellingAddr != types.SellingReserveAddress(a.ID).String() || a.PayingAddr != types.PayingReserveAddress(a.ID).String() || a.VestingAddr != types.VestingReserveAddress(a.ID).String() {
			vs = append(vs, viol("C19/escrow-address", "auction %d has escrow addresses %s/%s/%s", a.ID, a.SellingAddr, a.PayingAddr, a.VestingAddr))
		}
	}
	for _, b := range post.Bids {
		k := bidKey(b.Auction, b.ID)
		terms := fmt.Sprintf("%d/%d/%s/%d", b.Auction, b.ID, b.Bidder, b.Type)
		if old, ok := m.bidTerms[k]; ok && old != terms {
			vs = append(vs, viol("C19/bid-identity-changed", "step #%d: bid %s identity changed %s -> %s", st.Idx, k, old, terms))
		}
		m.bidTerms[k] = terms
	}
	// ---- ids: 0,1,2,... in creation order; bid ids 1,2,... per auction; nothing removed ----
	for i, a := range post.Auctions {
		if a.ID != uint64(i) {
			vs = append(vs, viol("C19/auction-ids", "auction ids are not 0..n-1: position %d holds id %d", i, a.ID))
		}
	}
	if len(post.Auctions) < len(pre.Auctions) {
		vs = append(vs, viol("C19/auction-removed", "step #%d: %d auctions -> %d", st.Idx, len(pre.Auctions), len(post.Auctions)))
	}
	if post.AuctionSeq != uint64(len(post.Auctions)) && st.Res.OK {
		vs = append(vs, viol("C19/auction-sequence", "auction sequence is %d with %d auctions stored", post.AuctionSeq, len(post.Auctions)))
	}
	for _, a := range post.Auctions {
		bids := post.BidsOf(a.ID)
		for i, b := range bids {
			if b.ID != uint64(i+1) {
				vs = append(vs, viol("C19/bid-ids", "auction %d: bid ids are not 1..n: position %d holds id %d", a.ID, i, b.ID))
			}
		}
		if uint64(len(bids)) != post.BidSeq[a.ID] {
			vs = append(vs, viol("C19/bid-sequence", "auction %d: bid sequence %d with %d bids stored", a.ID, post.BidSeq[a.ID], len(bids)))
		}
		if len(bids) < len(pre.BidsOf(a.ID)) {
			vs = append(vs, viol("C19/bid-removed", "auction %d lost bids", a.ID))
		}
	}
	// classification
	if st.Op.Kind == OpBlock {
		n := 0
		for _, tr := range st.Trans {
			if tr.Settled {
				n++
			}
		}
		if n >= 2 {
			h.Label("c19:>=2-auctions-settle-in-one-block")
		}
	}
	if st.Op.Kind == OpPlaceBid && st.Res.OK {
		a := pre.Auction(st.Op.Auction)
		if a != nil && !a.IsBatch() {
			for _, b := range pre.Bids {
				if b.Bidder == st.Op.SignerAddr() && b.Auction != a.ID {
					if oa := pre.Auction(b.Auction); oa != nil && !oa.IsBatch() {
						h.Label("c19:bidder-active-in->=2-fixed-auctions")
					}
				}
			}
		}
	}
	return vs
}

func targetStr(t int64) string {
	if t < 0 {
		return ""
	}
	return fmt.Sprintf(" on auction %d", t)
}

// dueInBlock reports whether block processing at time t has anything to do for auction a.
func dueInBlock(s *Snap, a *Auc, t time.Time) bool {
	switch a.Status {
	case types.AuctionStatusStandBy:
		return !a.Start.After(t)
	case types.AuctionStatusStarted:
		return !a.LastEnd().After(t)
	case types.AuctionStatusVesting:
		for _, v := range s.VQOf(a.ID) {
			if !v.Released && !v.Release.After(t) {
				return true
			}
		}
	}
	return false
}

// normCanon renders everything that belongs to auction id with the id and the escrow addresses
// replaced by placeholders, so that the auction can be compared with its copy in a projection.
func normCanon(s *Snap, id uint64) string {
	a := s.Auction(id)
	if a == nil {
		return "<missing>"
	}
	c := s.AuctionCanon(id)
	c = strings.ReplaceAll(c, a.SellingAddr, "SELLING")
	c = strings.ReplaceAll(c, a.PayingAddr, "PAYING")
	c = strings.ReplaceAll(c, a.VestingAddr, "VESTING")
	if strings.HasPrefix(c, fmt.Sprintf("id=%d type=", id)) {
		c = "id=X type=" + strings.TrimPrefix(c, fmt.Sprintf("id=%d type=", id))
	}
	for _, pfx := range []string{"bid a=", "allowed a=", "vq a="} {
		c = strings.ReplaceAll(c, fmt.Sprintf("%s%d ", pfx, id), pfx+"X ")
	}
	return c
}

// Final runs the non-interference (metamorphic) part: the history projected onto one auction
// (its own operations, all blocks and parameter changes) is executed on a separate branch; the
// auction's records, escrow balances and the accept/reject decisions of its operations must be
// identical modulo the renaming of the auction id and escrow addresses.
func (m *monC19) Final(h *History) []Violation {
	var vs []Violation
	if len(h.Steps) == 0 || len(h.Created) < 2 {
		return nil
	}
	for _, st := range h.Steps {
		if st.Op.Kind == OpSetBalance {
			h.Label("c19:projection-skipped-tight-funds")
			return nil // accept/reject may legitimately depend on what was spent elsewhere
		}
	}
	last := h.Steps[len(h.Steps)-1].Post
	for n, x := range h.Created {
		if n >= 3 {
			break
		}
		w2 := NewWorld(h.W.B)
		h2 := NewHistory(w2)
		type pair struct{ full, proj *Step }
		var pairs []pair
		halted := false
		for _, st := range h.Steps {
			o := st.Op
			include := false
			switch o.Kind {
			case OpBlock, OpUpdateParams:
				include = true
			case OpCreateFixed, OpCreateBatch:
				if tr := st.TransOf(x); st.Res.OK && tr != nil && tr.Pre == nil {
					include = true
				}
			case OpCancel, OpPlaceBid, OpModifyBid, OpAddAllowed, OpUpdateAllowed, OpMsgAddAllowed, OpDonate:
				if o.Auction == x {
					include = true
					o.Auction = 0
				}
			}
			if !include {
				continue
			}
			if o.Kind == OpBlock && !st.Res.OK {
				break
			}
			st2, _ := h2.Exec(o)
			pairs = append(pairs, pair{st, st2})
			if st2.Res.OK != st.Res.OK {
				vs = append(vs, viol("C19/non-interference/decision", "auction %d: operation %s was %s in the full history (%s) but %s when the other auctions are projected away (%s)", x, st.Op.String(), okStr(st.Res.OK), firstLine(st.Res.Err), okStr(st2.Res.OK), firstLine(st2.Res.Err)))
				halted = true
				break
			}
		}
		if halted {
			continue
		}
		h.Label("c19:projection-compared")
		full, proj := normCanon(last, x), normCanon(h2.Steps[len(h2.Steps)-1].Post, 0)
		if full != proj {
			vs = append(vs, viol("C19/non-interference/state", "auction %d ends differently in the full history and in its projection:\n%s", x, diffLines(full, proj)))
		}
	}
	return vs
}

// CfgC19 is the configuration of C19.
func CfgC19() PropCfg {
	w := DefaultWeights()
	w.CreateFixed, w.CreateBatch = 12, 12
	w.MaxAuctions = 5
	w.PlaceBid, w.ModifyBid, w.Block = 34, 10, 20
	w.PoorPct = 10
	w.PerturbPct = 8
	w.Bidders = 3 // the same few accounts bid in every auction
	w.AddAllowed = 14
	return PropCfg{ID: "C19", Weights: w, MinOps: 14, MaxOps: 70, DrivePct: 60,
		New:   func() Monitor { return &monC19{} },
		PreOp: isolationProbe,
		NonTrivial: func(h *History) bool {
			return hasLabel(h, "c19:bidder-active-in->=2-fixed-auctions", "c19:>=2-auctions-settle-in-one-block", "c19:isolation-probe-with-bids-elsewhere") || (hasLabel(h, "c19:projection-compared") && hasLabel(h, "c19:op-with->=2-auctions"))
		},
		Rule: "K histories with 2..5 concurrent auctions sharing auctioneers, bidders and denominations, including failing operations. Frame: a message/keeper call/donation on auction X leaves every other auction's record, bids, allow-list, instalments, bid counter and three escrow balances bit-identical; a block leaves untouched every auction that has nothing due. Terms: after every step the agreed terms of every auction equal their values at creation, escrow addresses are the derived ones, bid (auction, owner, type) never change, auction ids are 0..n-1, bid ids 1..n per auction, counters match, nothing is removed. Non-interference (metamorphic): the history projected onto one auction (its operations + all blocks + parameter changes, ample funds) runs on a separate branch; accept/reject of its operations and its final records + escrow balances must be identical modulo renaming. Local non-interference probe: every bid / bid modification by a bidder who holds bids or allow-list entries in other auctions is first executed on two discarded branches, one untouched and one with the bidder's bids and allow-list entries of all other auctions deleted; decision, the target auction's records and escrows, and the bidder's balances must be identical. Non-trivial = such a probe with bids elsewhere, a bidder active in >=2 fixed-price auctions, >=2 auctions settling in one block, or a compared projection with >=2 auctions present.",
	}
}
