package world

import (
	"fmt"
	"os"
	"strings"
	"testing"

	"pgregory.net/rapid"

	"github.com/tendermint/fundraising/x/fundraising/types"
)

// C17, wiring part: listeners registered on the application's keeper (the keeper the application
// wiring hands out, `app.FundraisingKeeper.SetHooks(...)`) must be the listeners that transactions
// and block processing call. Differential: a generated log is executed (1) on the keeper-level
// rig of the history part and (2) as signed transactions through FinalizeBlock + Commit on a fresh
// application whose keeper got the same listeners (same count, same failure plan) registered;
// every listener must record the same sequence of (method, arguments) in both executions.

func callsOf(calls []hookCall, listener int) []string {
	var out []string
	for _, c := range calls {
		if c.Listener == listener {
			out = append(out, c.Method+"("+c.Args+")")
		}
	}
	return out
}

// RunC17W is the test body of the wiring part.
func RunC17W(t *testing.T) {
	const prop = "C17"
	col := GlobalCollector(prop)
	col.AddRule("Wiring part (differential): a generated log with a listener configuration (L in 1..4, optional failing listener) is executed on the keeper-level rig and, with the same listeners registered through SetHooks on the keeper the application wiring hands out (app.FundraisingKeeper), as signed transactions through FinalizeBlock + Commit on a fresh application; each of the L listeners must record the same sequence of (method, arguments) in both executions, and a listener failure during block processing must make FinalizeBlock fail.")
	w := CfgC17H().Weights
	allow := caseLimiter(0)
	body := func(rt *rapid.T, ops []Op) {
		if rt != nil && !allow() {
			return
		}
		labels := map[string]int{}
		var kCalls []hookCall
		kVetoedBlock := false
		if rt != nil {
			h, _ := genLogK(rt, w, 8, 30, 60)
			ops = h.OpsLog()
		}
		var hooksOp *Op
		var rest []Op
		for i := range ops {
			if ops[i].Kind == OpHooks {
				hooksOp = &ops[i]
				continue
			}
			rest = append(rest, ops[i])
		}
		if hooksOp == nil {
			return
		}
		a, err := NewAppA()
		if err != nil {
			panic(err)
		}
		var aCalls []hookCall
		var veto bool
		plan := hookPlan{Method: hooksOp.FaultMethod, Position: hooksOp.FaultPos, Occurrence: hooksOp.FaultOcc}
		var ls []types.FundraisingHooks
		L := hooksOp.Listeners
		for i := 0; i < L; i++ {
			ls = append(ls, &recorder{idx: i, k: &a.B.K, b: a.B, calls: &aCalls, plan: &plan, seen: map[string]int{}, veto: &veto})
		}
		// what an application does after wiring: register the listeners on its keeper
		a.B.App.FundraisingKeeper.SetHooks(types.NewMultiFundraisingHooks(ls...))
		a.RunLog(rest)
		// keeper-level execution (reference): the schedule the application actually processed (a
		// block operation per delivered block - a keeper-level call closes the current block, so
		// several blocks may carry the same time - its transactions, the keeper-level calls in
		// between) replayed on the rig
		{
			wd := NewWorld(SharedBase())
			wd.SameTimeBlocks = true
			wd.Now = T0.Add(-1)
			h := NewHistory(wd)
			for _, o := range append([]Op{*hooksOp}, a.Sched...) {
				st, _ := h.Exec(o)
				kCalls = append(kCalls, st.Res.HookCalls...)
				if st.Op.Kind == OpBlock && !st.Res.OK {
					kVetoedBlock = st.Res.VetoIssued
					break
				}
			}
		}
		labels["c17w:cases"]++
		if len(kCalls) > 0 {
			labels["c17w:cases-with-hook-calls"]++
		}
		if plan.Method != "" {
			labels["c17w:cases-with-failing-listener"]++
		}
		if a.Failed != "" {
			labels["c17w:application-block-failed"]++
		}
		labels["c17w:transactions-lost-to-sequence-mismatch"] += a.SeqMismatch
		var v *Violation
		if kVetoedBlock && a.Failed == "" {
			// the listener refused a settlement: the keeper reports it, so must the application's block
			vv := viol("C17/wiring/veto-not-reported-by-the-application", "a listener returned an error from %s during block processing; at keeper level block processing reports it, but the application's FinalizeBlock succeeded for every block of the log", plan.Method)
			v = &vv
		}
		for l := 0; l < L && v == nil; l++ {
			want, got := callsOf(kCalls, l), callsOf(aCalls, l)
			if strings.Join(want, "\n") != strings.Join(got, "\n") {
				i := 0
				for i < len(want) && i < len(got) && want[i] == got[i] {
					i++
				}
				wi, gi := "<none>", "<none>"
				if i < len(want) {
					wi = want[i]
				}
				if i < len(got) {
					gi = got[i]
				}
				sig := "C17/wiring/calls-differ"
				if len(got) == 0 {
					sig = "C17/wiring/registered-listener-never-called"
				}
				vv := viol(sig, "listener %d of %d registered on the application's keeper recorded %d calls while the transactions and blocks of the log make %d hook calls at keeper level; first difference at call %d:\n keeper level: %s\n application:  %s", l, L, len(got), len(want), i, wi, gi)
				v = &vv
			}
		}
		if v != nil {
			if f, ok := IsKnown(prop, v.Sig); ok {
				col.Known(f)
			} else {
				WriteReplay(os.Getenv("VERIF_REPLAY_OUT"), Replay{Property: prop, Engine: "W", Signature: v.Sig, Message: v.Msg, Ops: ops})
				col.AddViolation()
				msg := fmt.Sprintf("VIOLATION %s [%s]\n%s\nhistory:\n%s", prop, v.Sig, v.Msg, opsStr(ops))
				if rt != nil {
					rt.Fatalf("%s", msg)
				} else {
					t.Errorf("%s", msg)
				}
				return
			}
		}
		if rt != nil {
			nt := len(kCalls) >= 2*L && L >= 2
			var sample any
			if nt {
				sample = map[string]any{"engine": "W", "listeners": L, "plan": plan, "hook_calls": len(kCalls), "ops": opsLines(ops)}
			}
			col.Case(map[string]any{"engine": "W", "ops": ops}, nt, labels, sample)
		}
	}
	if p := os.Getenv("VERIF_REPLAY_FILE"); p != "" {
		r, err := ReadReplay(p)
		if err != nil {
			t.Fatal(err)
		}
		if r.Engine == "W" {
			body(nil, r.Ops)
		}
		return
	}
	rapid.Check(t, func(rt *rapid.T) { body(rt, nil) })
}
