package world

import (
	"math/big"

	"cosmossdk.io/math"
)

// All oracle arithmetic is done on math/big integers; an 18-decimal value is represented by its
// mantissa m (value = m / 1e18). Nothing here calls LegacyDec arithmetic, so the oracle is
// independent of the implementation's decimal type.

var (
	bigZero = big.NewInt(0)
	bigOne  = big.NewInt(1)
	E18     = pow10(18)
)

func pow10(n int) *big.Int {
	return new(big.Int).Exp(big.NewInt(10), big.NewInt(int64(n)), nil)
}

func bi(x int64) *big.Int { return big.NewInt(x) }

func bcopy(x *big.Int) *big.Int { return new(big.Int).Set(x) }

func badd(a, b *big.Int) *big.Int { return new(big.Int).Add(a, b) }
func bsub(a, b *big.Int) *big.Int { return new(big.Int).Sub(a, b) }
func bmul(a, b *big.Int) *big.Int { return new(big.Int).Mul(a, b) }
func bmin(a, b *big.Int) *big.Int {
	if a.Cmp(b) <= 0 {
		return bcopy(a)
	}
	return bcopy(b)
}

// floorDiv returns floor(a/b) for b > 0 (a may be negative).
func floorDiv(a, b *big.Int) *big.Int {
	q, m := new(big.Int).DivMod(a, b, new(big.Int))
	_ = m
	return q
}

// ceilDiv returns ceil(a/b) for b > 0.
func ceilDiv(a, b *big.Int) *big.Int {
	q, m := new(big.Int).DivMod(a, b, new(big.Int))
	if m.Sign() != 0 {
		q.Add(q, bigOne)
	}
	return q
}

// MulCeil is ceil(amount * price) for an integer amount and a price mantissa.
func MulCeil(amount, priceM *big.Int) *big.Int { return ceilDiv(bmul(amount, priceM), E18) }

// QuoFloor is floor(amount / price) for an integer amount and a positive price mantissa.
func QuoFloor(amount, priceM *big.Int) *big.Int { return floorDiv(bmul(amount, E18), priceM) }

// MulFloor is floor(amount * weight) for an integer amount and a weight mantissa.
func MulFloor(amount, wM *big.Int) *big.Int { return floorDiv(bmul(amount, wM), E18) }

// DecM returns the mantissa of a LegacyDec (nil Dec => nil).
func DecM(d math.LegacyDec) *big.Int {
	if d.IsNil() {
		return nil
	}
	return d.BigInt()
}

// DecFromM builds a LegacyDec from a mantissa.
func DecFromM(m *big.Int) math.LegacyDec { return math.LegacyNewDecFromBigIntWithPrec(bcopy(m), 18) }

// IntB returns the big.Int of a math.Int (nil Int => 0).
func IntB(i math.Int) *big.Int {
	if i.IsNil() {
		return new(big.Int)
	}
	return i.BigInt()
}

// IntFromB builds a math.Int.
func IntFromB(b *big.Int) math.Int { return math.NewIntFromBigInt(bcopy(b)) }
