package world

import (
	"encoding/json"
	"fmt"
	"math/big"
	"os"
	"sort"
	"testing"
	"time"

	"cosmossdk.io/collections"
	"cosmossdk.io/core/appmodule"
	"cosmossdk.io/math"
	sdk "github.com/cosmos/cosmos-sdk/types"
	"pgregory.net/rapid"

	"github.com/tendermint/fundraising/x/fundraising/types"
)

// Engine D — direct construction: the interesting space is the order book / schedule /
// price x amount pair, not the path that led to it. Records are written straight into the
// collections (only shapes the messages can produce) and the function under test is called.

// BookBid is one bid of a generated order book.
type BookBid struct {
	Bidder int    `json:"bidder"`
	Worth  bool   `json:"worth"`
	Price  string `json:"price"`
	Amount string `json:"amount"`
}

// Book is a generated order book.
type Book struct {
	Supply string    `json:"supply"`
	Caps   []string  `json:"caps"` // per bidder index
	Bids   []BookBid `json:"bids"`
}

func genBook(t *rapid.T, g *Gen) Book {
	var b Book
	nB := 1 + uni(t, "book-bidders", 5)
	// price pool: few prices so that duplicates are frequent
	nP := 1 + uni(t, "book-prices", 5)
	large := pct(t, 12, "book-large")
	if large { // beyond the sizes at which sort implementations switch algorithm (12) and with every account
		nB = 2 + uni(t, "book-bidders-large", NumAccounts-1)
		nP = 1 + uni(t, "book-prices-large", 12)
		g.label("book:large(13-60 bids)")
	}
	var pool []*big.Int
	for i := 0; i < nP; i++ {
		pool = append(pool, g.drawPriceM(t, fmt.Sprintf("pool-%d", i)))
	}
	supply := g.drawAmount(t, "book-supply")
	if supply.Cmp(pow10(15)) > 0 && pct(t, 70, "book-small-supply") {
		supply = bi(int64(rapid.IntRange(1, 200).Draw(t, "book-supply-small")))
	}
	b.Supply = supply.String()
	for i := 0; i < nB; i++ {
		var c *big.Int
		switch uni(t, "cap-mode", 6) {
		case 0, 1:
			c = bcopy(supply) // not binding on its own
		case 2:
			c = bi(1)
		case 3:
			c = g.around(t, "cap-around-supply", supply)
		case 4:
			c = badd(supply, g.drawAmount(t, "cap-above")) // UpdateAllowedBidder has no upper bound
		default:
			c = g.drawAmount(t, "cap-any")
			if c.Cmp(supply) > 0 {
				c = g.around(t, "cap-any-clamped", supply)
			}
		}
		b.Caps = append(b.Caps, c.String())
	}
	nBids := 1 + uni(t, "book-nbids", 12)
	if large {
		nBids = 13 + uni(t, "book-nbids-large", 48)
	}
	for i := 0; i < nBids; i++ {
		bb := BookBid{Bidder: uni(t, "bb-bidder", nB), Worth: pct(t, 50, "bb-worth")}
		p := pick(t, "bb-price", pool)
		bb.Price = mstr(p)
		var qty *big.Int
		switch uni(t, "bb-qty-mode", 6) {
		case 0:
			qty = g.around(t, "bb-qty-supply", supply)
		case 1:
			qty = g.around(t, "bb-qty-cap", bigOf(b.Caps[bb.Bidder]))
		case 2:
			qty = bi(1)
		default:
			qty = g.drawAmount(t, "bb-qty")
			if qty.Cmp(bmul(supply, bi(3))) > 0 {
				qty = g.around(t, "bb-qty-clamped", supply)
			}
		}
		if bb.Worth {
			w := MulCeil(qty, p)
			switch uni(t, "bb-worth-mode", 5) {
			case 0:
				if p.Cmp(E18) > 0 { // dust: converts to zero at its own price
					w = bi(1)
				}
			case 1:
				w = badd(w, bi(int64(rapid.IntRange(0, 3).Draw(t, "bb-worth-extra"))))
			case 2:
				w = bsub(w, bigOne)
			}
			if w.Sign() <= 0 {
				w = bi(1)
			}
			bb.Amount = w.String()
		} else {
			bb.Amount = qty.String()
		}
		b.Bids = append(b.Bids, bb)
	}
	// forced inclusion (by weight, not by filter): a dust worth bid at the highest price
	if pct(t, 25, "book-force-dust-top") {
		top := pool[0]
		for _, p := range pool {
			if p.Cmp(top) > 0 {
				top = p
			}
		}
		if top.Cmp(E18) <= 0 {
			top = badd(top, bmul(bi(2), E18))
		}
		b.Bids = append(b.Bids, BookBid{Bidder: uni(t, "dust-bidder", nB), Worth: true, Price: mstr(top), Amount: "1"})
	}
	return b
}

// bookRecords turns a Book into flattened records (auction id 0).
func bookRecords(b Book) (bids []*BidRec, caps map[string]*big.Int, supply *big.Int) {
	caps = map[string]*big.Int{}
	for i, c := range b.Caps {
		caps[Addrs[i].String()] = bigOf(c)
	}
	for i, bb := range b.Bids {
		r := &BidRec{Auction: 0, ID: uint64(i + 1), Bidder: Addrs[bb.Bidder].String(), PriceM: DecM(dec(bb.Price)), Amt: bigOf(bb.Amount)}
		if bb.Worth {
			r.Type, r.Denom = types.BidTypeBatchWorth, "paya"
		} else {
			r.Type, r.Denom = types.BidTypeBatchMany, "sella"
		}
		bids = append(bids, r)
	}
	return bids, caps, bigOf(b.Supply)
}

// storeBook writes the auction, allow-list and bids of a book into a fresh branch.
func storeBook(b *Base, ctx sdk.Context, bk Book, maxRounds uint32) *types.BatchAuction {
	bids, caps, supply := bookRecords(bk)
	minP := bids[0].PriceM
	for _, r := range bids {
		if r.PriceM.Cmp(minP) < 0 {
			minP = r.PriceM
		}
	}
	end := T0.Add(time.Hour)
	ba := types.NewBaseAuction(0, types.AuctionTypeBatch, Addrs[0].String(),
		types.SellingReserveAddress(0).String(), types.PayingReserveAddress(0).String(),
		DecFromM(minP), sdk.NewCoin("sella", IntFromB(supply)), "paya",
		types.VestingReserveAddress(0).String(), nil, T0, []time.Time{end}, types.AuctionStatusStarted)
	auction := types.NewBatchAuction(ba, DecFromM(minP), math.LegacyZeroDec(), maxRounds, math.LegacyMustNewDecFromStr("0.5"))
	must(b.K.Auction.Set(ctx, 0, auction))
	if _, err := b.K.AuctionSeq.Next(ctx); err != nil {
		panic(err)
	}
	var addrs []string
	for a := range caps {
		addrs = append(addrs, a)
	}
	sort.Strings(addrs)
	for _, a := range addrs {
		acc, _ := sdk.AccAddressFromBech32(a)
		must(b.K.AllowedBidder.Set(ctx, collections.Join(uint64(0), acc), types.AllowedBidder{AuctionId: 0, Bidder: a, MaxBidAmount: IntFromB(caps[a])}))
	}
	for _, r := range bids {
		must(b.K.Bid.Set(ctx, collections.Join(uint64(0), r.ID), types.Bid{AuctionId: 0, Id: r.ID, Bidder: r.Bidder, Type: r.Type, Price: DecFromM(r.PriceM), Coin: sdk.NewCoin(r.Denom, IntFromB(r.Amt))}))
	}
	must(b.K.BidSeq.Set(ctx, 0, uint64(len(bids))))
	return auction
}

// checkBook runs CalculateBatchAllocation on the stored book and compares with the reference.
// which: "C03" (price / allocation / total / no-sale refund) or "C04" (payments).
func checkBook(b *Base, bk Book, which string) (*MatchRef, []Violation) {
	ctx := b.Branch()
	auction := storeBook(b, ctx, bk, 0)
	bids, caps, supply := bookRecords(bk)
	ref := RefMatch(bids, caps, supply, "paya")
	var vs []Violation
	var panicked string
	mInfo, err := func() (mi struct {
		Len    int64
		Price  *big.Int
		Total  *big.Int
		Alloc  map[string]*big.Int
		Refund map[string]*big.Int
	}, err error) {
		defer func() {
			if r := recover(); r != nil {
				panicked = fmt.Sprint(r)
			}
		}()
		m, e := b.K.CalculateBatchAllocation(ctx, auction)
		if e != nil {
			return mi, e
		}
		mi.Len, mi.Price, mi.Total = m.MatchedLen, DecM(m.MatchedPrice), IntB(m.TotalMatchedAmount)
		mi.Alloc, mi.Refund = map[string]*big.Int{}, map[string]*big.Int{}
		for k, v := range m.AllocationMap {
			mi.Alloc[k] = IntB(v)
		}
		for k, v := range m.RefundMap {
			mi.Refund[k] = IntB(v)
		}
		return mi, nil
	}()
	if panicked != "" {
		return ref, []Violation{viol(which+"/matching-panicked", "CalculateBatchAllocation panicked: %s", panicked)}
	}
	if err != nil {
		return ref, []Violation{viol(which+"/matching-error", "CalculateBatchAllocation failed: %v", err)}
	}
	if which == "C03" {
		gotP := mInfo.Price
		if ref.Sold {
			if gotP == nil || gotP.Cmp(ref.PStarM) != 0 {
				vs = append(vs, viol("C03/clearing-price", "clearing price %s, reference (lowest bid price whose capped demand fits supply %s) is %s", mOrNil(gotP), supply, mstr(ref.PStarM)))
			}
		} else if mInfo.Total.Sign() != 0 {
			vs = append(vs, viol("C03/sold-although-nothing-qualifies", "matched %s at %s although no price qualifies or the qualifying demand is zero", mInfo.Total, mOrNil(gotP)))
		}
		if mInfo.Total.Cmp(ref.Total) != 0 {
			vs = append(vs, viol("C03/total-sold", "total matched %s, reference %s at price %s", mInfo.Total, ref.Total, mOrNil(ref.PStarM)))
		}
		for _, bd := range ref.Bidders {
			if zeroIfNil(mInfo.Alloc[bd]).Cmp(ref.Alloc[bd]) != 0 {
				vs = append(vs, viol("C03/allocation", "%s allocated %s, reference capped demand %s at price %s (cap %s)", short(bd), zeroIfNil(mInfo.Alloc[bd]), ref.Alloc[bd], mOrNil(ref.PStarM), caps[bd]))
			}
			if !ref.Sold && zeroIfNil(mInfo.Refund[bd]).Cmp(ref.ReqSum[bd]) != 0 {
				vs = append(vs, viol("C03/no-sale-refund", "nothing sold but %s is refunded %s of %s reserved", short(bd), zeroIfNil(mInfo.Refund[bd]), ref.ReqSum[bd]))
			}
		}
		if mInfo.Len < int64(ref.LenLo) || mInfo.Len > int64(ref.LenHi) {
			vs = append(vs, viol("C03/matched-count", "matched %d bids, reference admits %d..%d", mInfo.Len, ref.LenLo, ref.LenHi))
		}
	} else {
		for _, bd := range ref.Bidders {
			refund := zeroIfNil(mInfo.Refund[bd])
			pay := bsub(ref.ReqSum[bd], refund)
			if refund.Sign() < 0 || pay.Sign() < 0 {
				vs = append(vs, viol("C04/refund-out-of-range", "%s reserved %s, refund %s", short(bd), ref.ReqSum[bd], refund))
				continue
			}
			// judged relative to the price and allocation the implementation itself reports (whether
			// they are the right ones is C03's business)
			got := zeroIfNil(mInfo.Alloc[bd])
			if got.Sign() == 0 {
				if pay.Sign() != 0 {
					vs = append(vs, viol("C04/loser-not-fully-refunded", "%s wins nothing, reserved %s, refund %s", short(bd), ref.ReqSum[bd], refund))
				}
				continue
			}
			if mInfo.Price == nil || mInfo.Price.Sign() <= 0 {
				vs = append(vs, viol("C04/allocation-without-price", "%s is allocated %s coins but no clearing price is reported", short(bd), got))
				continue
			}
			lo, hi, exact, eligible, _ := PayBounds(bids, bd, "paya", mInfo.Price, got)
			if eligible == 0 {
				vs = append(vs, viol("C04/price-above-every-bid", "cleared at %s: %s gets %s coins although none of its bids is priced at or above that", mstr(mInfo.Price), short(bd), got))
				continue
			}
			if pay.Cmp(lo) < 0 || pay.Cmp(hi) > 0 {
				vs = append(vs, viol("C04/payment-out-of-bounds", "cleared at %s: %s gets %s coins and pays %s (reserved %s); bounds [%s,%s] exact=%v", mstr(mInfo.Price), short(bd), got, pay, ref.ReqSum[bd], lo, hi, exact))
			}
		}
		// conversion helpers on every bid of the book
		for _, r := range bids {
			tb := types.Bid{Type: r.Type, Price: DecFromM(r.PriceM), Coin: sdk.NewCoin(r.Denom, IntFromB(r.Amt))}
			if got := IntB(tb.ConvertToPayingAmount("paya")); got.Cmp(r.Req("paya")) != 0 {
				vs = append(vs, viol("C04/convert-to-paying", "ConvertToPayingAmount(%s) = %s, ceil(amount*price) or worth = %s", r.Canon(), got, r.Req("paya")))
			}
			if got := IntB(tb.ConvertToSellingAmount("paya")); got.Cmp(r.QtyAt("paya", r.PriceM)) != 0 {
				vs = append(vs, viol("C04/convert-to-selling", "ConvertToSellingAmount(%s) = %s, floor(worth/price) or amount = %s", r.Canon(), got, r.QtyAt("paya", r.PriceM)))
			}
		}
	}
	return ref, vs
}

// RunBookD is the test body of the order-book properties (C03 / C04, Engine D).
func RunBookD(t *testing.T, prop string, rule string) {
	col := GlobalCollector(prop)
	col.AddRule(rule)
	b := SharedBase()
	report := func(rt interface{ Fatalf(string, ...any) }, bk Book, v Violation) {
		if f, ok := IsKnown(prop, v.Sig); ok {
			col.Known(f)
			return
		}
		raw, _ := json.Marshal(bk)
		WriteReplay(os.Getenv("VERIF_REPLAY_OUT"), Replay{Property: prop, Engine: "D-book", Signature: v.Sig, Message: v.Msg, Case: raw})
		col.mu.Lock()
		col.Violations++
		col.mu.Unlock()
		rt.Fatalf("VIOLATION %s [%s]\n%s\nbook: %s", prop, v.Sig, v.Msg, raw)
	}
	if p := os.Getenv("VERIF_REPLAY_FILE"); p != "" {
		r, err := ReadReplay(p)
		if err != nil {
			t.Fatal(err)
		}
		if r.Engine != "D-book" {
			return
		}
		var bk Book
		must(json.Unmarshal(r.Case, &bk))
		_, vs := checkBook(b, bk, prop)
		for _, v := range vs {
			t.Errorf("VIOLATION %s [%s]\n%s", prop, v.Sig, v.Msg)
		}
		return
	}
	factor := envInt("VERIF_D_FACTOR", 1)
	rapid.Check(t, func(rt *rapid.T) {
		for rep := 0; rep < factor; rep++ {
			g := NewGen(DefaultWeights())
			bk := genBook(rt, g)
			ref, vs := checkBook(b, bk, prop)
			for _, v := range vs {
				report(rt, bk, v)
			}
			labels := map[string]int{}
			h := &History{Labels: labels}
			labelBook(h, "book", ref)
			nonInt := ref.Sold && new(big.Int).Mod(ref.PStarM, E18).Sign() != 0
			if nonInt {
				labels["book:noninteger-clearing-price"]++
			}
			nt := ref.Prices >= 2 && ref.RejectedPrices >= 1
			if prop == "C04" {
				nt = nonInt
			}
			col.Case(bk, nt, labels, map[string]any{"book": bk, "reference_clearing_price": mOrNil(ref.PStarM), "reference_total": ref.Total.String()})
		}
	})
}

// ---------------------------------------------------------------------------------------------
// C09 direct: schedules x proceeds through ApplyVestingSchedules, then generated block times.
// ---------------------------------------------------------------------------------------------

// VestCase is a generated schedule with proceeds and block times.
type VestCase struct {
	Proceeds string      `json:"proceeds"`
	Weights  []string    `json:"weights"`
	Releases []time.Time `json:"releases"`
	Blocks   []time.Time `json:"blocks"`
	Fixed    bool        `json:"fixed"`
}

func genVest(t *rapid.T, g *Gen) VestCase {
	var c VestCase
	n := 1 + uni(t, "vest-n", 6)
	if pct(t, 25, "vest-many") {
		n = rapid.IntRange(7, 100).Draw(t, "vest-n-many")
	}
	ws := g.weights01(t, n)
	end := T0.Add(time.Hour)
	rel := end
	for i := 0; i < n; i++ {
		if i == 0 && pct(t, 30, "vest-rel-min") {
			rel = rel.Add(1)
		} else {
			rel = rel.Add(time.Duration(rapid.IntRange(1, 48).Draw(t, "vest-rel-h")) * time.Hour)
		}
		c.Weights = append(c.Weights, mstr(ws[i]))
		c.Releases = append(c.Releases, rel)
	}
	switch uni(t, "vest-proceeds-mode", 6) {
	case 0:
		c.Proceeds = "0"
	case 1:
		c.Proceeds = fmt.Sprint(rapid.IntRange(1, n).Draw(t, "vest-proceeds-lt-n"))
	case 2:
		c.Proceeds = bmul(bi(rapid.Int64Range(1, 999).Draw(t, "vest-mant")), pow10(rapid.IntRange(18, 30).Draw(t, "vest-exp"))).String()
	default:
		c.Proceeds = g.drawAmount(t, "vest-proceeds").String()
	}
	c.Fixed = pct(t, 50, "vest-fixed")
	// block times: on / around / skipping release instants, strictly increasing from the end time
	now := end
	nb := 1 + uni(t, "vest-nblocks", 2*n+2)
	if nb > 40 {
		nb = 40
	}
	for i := 0; i < nb; i++ {
		var cands []time.Time
		for _, r := range c.Releases {
			for _, d := range []time.Duration{-1, 0, 1} {
				if x := r.Add(d); x.After(now) {
					cands = append(cands, x)
				}
			}
		}
		var bt time.Time
		if len(cands) > 0 && pct(t, 80, "vest-on-instant") {
			k := len(cands)
			if k > 7 && pct(t, 70, "vest-near") {
				k = 7
			}
			bt = cands[uni(t, "vest-cand", k)]
		} else {
			bt = now.Add(time.Duration(rapid.Int64Range(1, int64(100*time.Hour)).Draw(t, "vest-step")))
		}
		c.Blocks = append(c.Blocks, bt)
		now = bt
	}
	if pct(t, 70, "vest-finish") {
		c.Blocks = append(c.Blocks, maxTime(now, c.Releases[len(c.Releases)-1]).Add(time.Hour))
	}
	return c
}

func maxTime(a, b time.Time) time.Time {
	if a.After(b) {
		return a
	}
	return b
}

func checkVest(b *Base, c VestCase) (labels map[string]int, vs []Violation) {
	labels = map[string]int{}
	ctx := b.Branch()
	proceeds := bigOf(c.Proceeds)
	end := T0.Add(time.Hour)
	var sched []types.VestingSchedule
	var srec []SchedRec
	for i := range c.Weights {
		sched = append(sched, types.VestingSchedule{ReleaseTime: c.Releases[i], Weight: dec(c.Weights[i])})
		srec = append(srec, SchedRec{Release: c.Releases[i], WeightM: DecM(dec(c.Weights[i]))})
	}
	auctioneer := Addrs[0]
	ba := types.NewBaseAuction(0, types.AuctionTypeFixedPrice, auctioneer.String(),
		types.SellingReserveAddress(0).String(), types.PayingReserveAddress(0).String(),
		math.LegacyOneDec(), sdk.NewCoin("sella", math.NewInt(1000)), "paya",
		types.VestingReserveAddress(0).String(), sched, T0, []time.Time{end}, types.AuctionStatusStarted)
	var auction types.AuctionI
	if c.Fixed {
		auction = types.NewFixedPriceAuction(ba, sdk.NewCoin("sella", math.NewInt(1000)))
	} else {
		ba.Type = types.AuctionTypeBatch
		auction = types.NewBatchAuction(ba, math.LegacyOneDec(), math.LegacyZeroDec(), 0, math.LegacyOneDec())
	}
	must(b.K.Auction.Set(ctx, 0, auction))
	if _, err := b.K.AuctionSeq.Next(ctx); err != nil {
		panic(err)
	}
	must(b.Mint(ctx, types.PayingReserveAddress(0), sdk.NewCoins(sdk.NewCoin("paya", IntFromB(proceeds)))))
	ctx = ctx.WithBlockTime(end)
	var perr string
	func() {
		defer func() {
			if r := recover(); r != nil {
				perr = fmt.Sprint(r)
			}
		}()
		if err := b.K.ApplyVestingSchedules(ctx, auction); err != nil {
			perr = err.Error()
		}
	}()
	if perr != "" {
		return labels, []Violation{viol("C09/apply-failed", "ApplyVestingSchedules failed for proceeds %s over %d instalments: %s", proceeds, len(sched), perr)}
	}
	snap := TakeSnap(b, ctx)
	vq := snap.VQOf(0)
	want := RefVesting(proceeds, srec)
	if len(vq) != len(want) {
		return labels, []Violation{viol("C09/instalment-count", "%d instalments recorded for %d schedule entries", len(vq), len(want))}
	}
	sum := new(big.Int)
	exact := true
	for i, v := range vq {
		sum.Add(sum, v.Amt)
		if v.Amt.Cmp(want[i]) != 0 || !v.Release.Equal(c.Releases[i]) || v.Released {
			vs = append(vs, viol("C09/instalment", "instalment %d/%d: recorded %s at %s released=%v, expected %s at %s (proceeds %s, weight %s)", i+1, len(vq), v.Amt, tfmt(v.Release), v.Released, want[i], tfmt(c.Releases[i]), proceeds, c.Weights[i]))
		}
		if new(big.Int).Mod(bmul(proceeds, srec[i].WeightM), E18).Sign() != 0 {
			exact = false
		}
	}
	if sum.Cmp(proceeds) != 0 {
		vs = append(vs, viol("C09/instalments-sum", "instalments sum to %s, proceeds %s", sum, proceeds))
	}
	if snap.Auction(0).Status != types.AuctionStatusVesting {
		vs = append(vs, viol("C09/status-after-apply", "status %s after applying a %d-entry schedule", snap.Auction(0).Status, len(sched)))
	}
	if got := snap.BalOf(types.VestingReserveAddress(0).String(), "paya"); got.Cmp(proceeds) != 0 {
		vs = append(vs, viol("C09/vesting-escrow", "vesting escrow holds %s, proceeds %s", got, proceeds))
	}
	if len(vs) > 0 {
		return labels, vs
	}
	if len(vq) >= 2 && !exact {
		labels["vest:>=2-instalments-not-divisible"]++
	}
	if proceeds.Sign() == 0 {
		labels["vest:zero-proceeds"]++
	} else if proceeds.Cmp(bi(int64(len(vq)))) < 0 {
		labels["vest:proceeds<instalments"]++
	}
	if len(vq) > 20 {
		labels["vest:>20-instalments"]++
	}
	// block times
	mod := b.App.ModuleManager.Modules[types.ModuleName].(appmodule.HasBeginBlocker)
	released := make([]bool, len(vq))
	bal := snap.BalOf(auctioneer.String(), "paya")
	for _, bt := range c.Blocks {
		ctx = ctx.WithBlockTime(bt)
		var berr string
		func() {
			defer func() {
				if r := recover(); r != nil {
					berr = fmt.Sprint(r)
				}
			}()
			if err := mod.BeginBlock(ctx); err != nil {
				berr = err.Error()
			}
		}()
		if berr != "" {
			labels["vest:block-failed(halted)"]++ // block failures are C07's business
			return labels, vs
		}
		s2 := TakeSnap(b, ctx)
		due := new(big.Int)
		n := 0
		for i := range vq {
			if !released[i] && !c.Releases[i].After(bt) {
				released[i] = true
				due.Add(due, want[i])
				n++
			}
			if c.Releases[i].Equal(bt) {
				labels["vest:block==release"]++
			}
		}
		if n >= 2 {
			labels["vest:block-skips-several-releases"]++
		}
		nb := s2.BalOf(auctioneer.String(), "paya")
		if got := bsub(nb, bal); got.Cmp(due) != 0 {
			vs = append(vs, viol("C09/payout-mismatch", "block %s paid the auctioneer %s, instalments due in this block add up to %s", tfmt(bt), got, due))
		}
		bal = nb
		for i, v := range s2.VQOf(0) {
			if v.Released != released[i] {
				vs = append(vs, viol("C09/released-flag", "after block %s instalment %d (release %s) has released=%v, expected %v", tfmt(bt), i, tfmt(v.Release), v.Released, released[i]))
			}
		}
		wantStatus := types.AuctionStatusVesting
		if released[len(released)-1] {
			wantStatus = types.AuctionStatusFinished
			labels["vest:finished"]++
		}
		if s2.Auction(0).Status != wantStatus {
			vs = append(vs, viol("C09/status", "after block %s status is %s, expected %s", tfmt(bt), s2.Auction(0).Status, wantStatus))
		}
		if len(vs) > 0 {
			return labels, vs
		}
		if wantStatus == types.AuctionStatusFinished {
			// one more block must pay nothing
			continue
		}
	}
	return labels, vs
}

// RunVestD is the test body of C09's direct part.
func RunVestD(t *testing.T, rule string) {
	const prop = "C09"
	col := GlobalCollector(prop)
	col.AddRule(rule)
	b := SharedBase()
	if p := os.Getenv("VERIF_REPLAY_FILE"); p != "" {
		r, err := ReadReplay(p)
		if err != nil {
			t.Fatal(err)
		}
		if r.Engine != "D-vest" {
			return
		}
		var c VestCase
		must(json.Unmarshal(r.Case, &c))
		_, vs := checkVest(b, c)
		for _, v := range vs {
			t.Errorf("VIOLATION %s [%s]\n%s", prop, v.Sig, v.Msg)
		}
		return
	}
	factor := envInt("VERIF_D_FACTOR", 1)
	rapid.Check(t, func(rt *rapid.T) {
		for rep := 0; rep < factor; rep++ {
			g := NewGen(DefaultWeights())
			c := genVest(rt, g)
			labels, vs := checkVest(b, c)
			for _, v := range vs {
				if f, ok := IsKnown(prop, v.Sig); ok {
					col.Known(f)
					continue
				}
				raw, _ := json.Marshal(c)
				WriteReplay(os.Getenv("VERIF_REPLAY_OUT"), Replay{Property: prop, Engine: "D-vest", Signature: v.Sig, Message: v.Msg, Case: raw})
				col.mu.Lock()
				col.Violations++
				col.mu.Unlock()
				rt.Fatalf("VIOLATION %s [%s]\n%s\ncase: %s", prop, v.Sig, v.Msg, raw)
			}
			col.Case(c, labels["vest:>=2-instalments-not-divisible"] > 0, labels, map[string]any{"vesting_case": c})
		}
	})
}
