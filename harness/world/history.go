package world

import (
	"fmt"
	"math/big"
	"sort"
	"strings"
	"time"

	sdk "github.com/cosmos/cosmos-sdk/types"

	"github.com/tendermint/fundraising/x/fundraising/types"
)

// Xfer is one bank transfer observed through the coin_spent / coin_received events.
type Xfer struct {
	From, To string
	Denom    string
	Amt      *big.Int
}

func (x Xfer) String() string { return fmt.Sprintf("%s->%s:%s%s", short(x.From), short(x.To), x.Amt, x.Denom) }

func short(a string) string {
	if i := AddrIndex(a); i >= 0 {
		return fmt.Sprintf("acc%d", i)
	}
	if len(a) > 12 {
		return a[:10] + ".." + a[len(a)-4:]
	}
	return a
}

// ParseXfers turns the ordered bank events of one operation into an ordered transfer list:
// every coin_received is attributed to the spender of the most recent coin_spent.
func ParseXfers(evs sdk.Events) []Xfer {
	var out []Xfer
	spender := ""
	for _, e := range evs {
		switch e.Type {
		case "coin_spent":
			for _, a := range e.Attributes {
				if a.Key == "spender" {
					spender = a.Value
				}
			}
		case "coin_received":
			var recv, amt string
			for _, a := range e.Attributes {
				switch a.Key {
				case "receiver":
					recv = a.Value
				case "amount":
					amt = a.Value
				}
			}
			if amt == "" {
				continue
			}
			coins, err := sdk.ParseCoinsNormalized(amt)
			if err != nil {
				continue
			}
			for _, c := range coins {
				out = append(out, Xfer{From: spender, To: recv, Denom: c.Denom, Amt: c.Amount.BigInt()})
			}
		}
	}
	return out
}

// Transition summarises what a step did to one auction.
type Transition struct {
	ID                  uint64
	Pre, Post           *Auc // Pre is nil for an auction created by the step
	Settled             bool // open -> vesting | finished
	Extended            bool // an end time was appended
	Opened              bool // waiting -> open
	Cancelled           bool
	ReleasedNow         []*VQRec // instalments flagged released by this step (post records)
	FinishedFromVesting bool
}

// Step is one executed operation with the observations around it.
type Step struct {
	Idx int
	// Op is the operation as the monitors see it (a block with an injected fault is a block);
	// Raw is the operation as generated (kept for the replay file).
	Op  Op
	Raw Op
	Res   Result
	Now   time.Time // block time the operation executed at
	Pre   *Snap
	Post  *Snap
	Xfers []Xfer
	Evs   sdk.Events
	Trans []*Transition
	// donations swept by this step (auction -> amount), recorded by the ledger
	SweptS map[uint64]*big.Int
	SweptP map[uint64]*big.Int
}

// Trans returns the transition of auction id in this step (nil when none).
func (st *Step) TransOf(id uint64) *Transition {
	for _, tr := range st.Trans {
		if tr.ID == id {
			return tr
		}
	}
	return nil
}

// Violation is a failed oracle. Sig is machine-readable and stable (known-findings matching).
type Violation struct {
	Sig string
	Msg string
}

func viol(sig, format string, args ...any) Violation {
	return Violation{Sig: sig, Msg: fmt.Sprintf(format, args...)}
}

// Monitor is one property's oracle over a history.
type Monitor interface {
	// Step is called after every executed operation, after the ledger absorbed it (what the
	// ledger swept in this step is kept in st.SweptS / st.SweptP).
	Step(h *History, st *Step) []Violation
	// Final is called at the end of the history.
	Final(h *History) []Violation
}

// SettleRec is what the ledger keeps about a settlement.
type SettleRec struct {
	Step   int
	Ref    *MatchRef           // batch: reference clearing on the pre-state
	Alloc  map[string]*big.Int // expected allocation per bidder (fixed: sum of quantities)
	ReqSum map[string]*big.Int
	// swept donations
	SweptS, SweptP *big.Int
	Proceeds       *big.Int // paying coin that left the paying escrow towards auctioneer/vesting
	Caps           map[string]*big.Int
	UsedPriceM     *big.Int  // batch: published matched price (reference price when nothing is published)
	Bids           []*BidRec // the order book at settlement
	PayDenom       string
}

// BidInfo is what the ledger remembers about an accepted bid.
type BidInfo struct {
	Auction, ID uint64
	Owner       string
	Type        types.BidType
	Denom       string
	CapAtAccept *big.Int // allowance read just before the message
	Qty         *big.Int // fixed price: quantity at acceptance
	CumQty      *big.Int // fixed price: cumulative quantity of the bidder incl. this bid
}

// History executes operations, keeps observations and the shadow ledger.
type History struct {
	W      *World
	Steps  []*Step // all steps (kept for the replay file / samples)
	Labels map[string]int

	// ---- shadow ledger (updated from what the implementation actually did) ----
	// Donated[auction][role][denom]: third-party coins sent to the escrow and not yet swept.
	Donated map[uint64]map[string]map[string]*big.Int
	Terms   map[uint64]string // agreed terms at creation
	Created []uint64          // auction ids in creation order
	Bids    map[string]*BidInfo
	BidKeys []string // bid keys in creation order
	Settle  map[uint64]*SettleRec
	// flows per auction and account, by denom
	InP   map[uint64]map[string]*big.Int // account -> paying coin sent into the paying escrow
	OutS  map[uint64]map[string]*big.Int // account -> selling coin received from the selling escrow
	OutP  map[uint64]map[string]*big.Int // account -> paying coin received from paying/vesting escrows
	Fees  map[string]*big.Int            // denom -> fees observed flowing to the community pool
	Statuses map[uint64][]types.AuctionStatus // observed status sequence (deduplicated)
	Halted bool
}

// NewHistory starts a history.
func NewHistory(w *World) *History {
	return &History{W: w, Labels: map[string]int{}, Donated: map[uint64]map[string]map[string]*big.Int{}, Terms: map[uint64]string{},
		Bids: map[string]*BidInfo{}, Settle: map[uint64]*SettleRec{}, InP: map[uint64]map[string]*big.Int{}, OutS: map[uint64]map[string]*big.Int{},
		OutP: map[uint64]map[string]*big.Int{}, Fees: map[string]*big.Int{}, Statuses: map[uint64][]types.AuctionStatus{}}
}

func (h *History) Label(s string) { h.Labels[s]++ }

func bidKey(a, id uint64) string { return fmt.Sprintf("%d/%d", a, id) }

func (h *History) donated(a uint64, role, denom string) *big.Int {
	if m := h.Donated[a]; m != nil {
		if r := m[role]; r != nil {
			if v := r[denom]; v != nil {
				return v
			}
		}
	}
	return bigZero
}

func (h *History) addDonation(a uint64, role, denom string, amt *big.Int) {
	if h.Donated[a] == nil {
		h.Donated[a] = map[string]map[string]*big.Int{}
	}
	if h.Donated[a][role] == nil {
		h.Donated[a][role] = map[string]*big.Int{}
	}
	cur := h.Donated[a][role][denom]
	if cur == nil {
		cur = new(big.Int)
	}
	h.Donated[a][role][denom] = badd(cur, amt)
}

func addFlow(m map[uint64]map[string]*big.Int, a uint64, acc string, amt *big.Int) {
	if m[a] == nil {
		m[a] = map[string]*big.Int{}
	}
	cur := m[a][acc]
	if cur == nil {
		cur = new(big.Int)
	}
	m[a][acc] = badd(cur, amt)
}

func flowOf(m map[uint64]map[string]*big.Int, a uint64, acc string) *big.Int {
	if m[a] != nil && m[a][acc] != nil {
		return m[a][acc]
	}
	return bigZero
}

// Exec applies one operation, observes it, runs the monitors and then lets the ledger absorb it.
func (h *History) Exec(o Op, mons ...Monitor) (*Step, []Violation) {
	w := h.W
	pre := TakeSnap(w.B, w.Ctx)
	if len(h.Steps) > 0 && h.Steps[len(h.Steps)-1].Post != nil {
		// reuse: the previous post-state is this pre-state (no hidden changes in between)
		pre = h.Steps[len(h.Steps)-1].Post
	}
	em := sdk.NewEventManager()
	w.Ctx = w.Ctx.WithEventManager(em)
	res := w.Apply(o)
	st := &Step{Idx: len(h.Steps), Op: o, Raw: o, Res: res, Now: w.Now, Pre: pre, SweptS: map[uint64]*big.Int{}, SweptP: map[uint64]*big.Int{}}
	if o.Kind == OpFaultBlock {
		st.Op.Kind = OpBlock
	}
	st.Post = TakeSnap(w.B, w.Ctx)
	if res.OK {
		st.Evs = em.Events()
		st.Xfers = ParseXfers(st.Evs)
	}
	st.Trans = transitions(pre, st.Post)
	h.Steps = append(h.Steps, st)
	if w.Halted {
		h.Halted = true
	}
	h.absorb(st)
	var vs []Violation
	for _, m := range mons {
		vs = append(vs, m.Step(h, st)...)
	}
	return st, vs
}

func transitions(pre, post *Snap) []*Transition {
	var out []*Transition
	for _, pa := range post.Auctions {
		tr := &Transition{ID: pa.ID, Post: pa, Pre: pre.Auction(pa.ID)}
		changed := tr.Pre == nil
		if tr.Pre != nil {
			if tr.Pre.Status != pa.Status {
				changed = true
				switch {
				case tr.Pre.Status == types.AuctionStatusStandBy && pa.Status == types.AuctionStatusStarted:
					tr.Opened = true
				case tr.Pre.Status == types.AuctionStatusStarted && (pa.Status == types.AuctionStatusVesting || pa.Status == types.AuctionStatusFinished):
					tr.Settled = true
				case pa.Status == types.AuctionStatusCancelled:
					tr.Cancelled = true
				case tr.Pre.Status == types.AuctionStatusVesting && pa.Status == types.AuctionStatusFinished:
					tr.FinishedFromVesting = true
				}
			}
			if len(pa.EndTimes) != len(tr.Pre.EndTimes) {
				changed = true
				tr.Extended = len(pa.EndTimes) > len(tr.Pre.EndTimes)
			}
			preVQ := pre.VQOf(pa.ID)
			for i, v := range post.VQOf(pa.ID) {
				if v.Released && (i >= len(preVQ) || !preVQ[i].Released) {
					tr.ReleasedNow = append(tr.ReleasedNow, v)
					changed = true
				}
			}
		}
		if changed {
			out = append(out, tr)
		}
	}
	return out
}

// EscrowRole maps an address to (auction, role) when it is an escrow of a known auction.
func EscrowRole(s *Snap, addr string) (uint64, string, bool) {
	for _, a := range s.Auctions {
		switch addr {
		case a.SellingAddr:
			return a.ID, "selling", true
		case a.PayingAddr:
			return a.ID, "paying", true
		case a.VestingAddr:
			return a.ID, "vesting", true
		}
	}
	return 0, "", false
}

// absorb updates the shadow ledger from the observed effects of a step.
func (h *History) absorb(st *Step) {
	post := st.Post
	for _, a := range post.Auctions {
		seq := h.Statuses[a.ID]
		if len(seq) == 0 || seq[len(seq)-1] != a.Status {
			h.Statuses[a.ID] = append(seq, a.Status)
		}
	}
	if !st.Res.OK {
		return
	}
	// scale classes (measured, so that "more than 100 of something" is known to be reached)
	if st.Op.Kind == OpBlock {
		live := 0
		for _, a := range st.Pre.Auctions {
			if a.Status == types.AuctionStatusStandBy || a.Status == types.AuctionStatusStarted || a.Status == types.AuctionStatusVesting {
				live++
			}
		}
		if live > 100 {
			h.Label("scale:block-with->100-live-auctions")
		}
		for _, tr := range st.Trans {
			if !tr.Settled {
				continue
			}
			bids := st.Pre.BidsOf(tr.ID)
			bidders := map[string]int{}
			for _, b := range bids {
				bidders[b.Bidder]++
			}
			most := 0
			for _, n := range bidders {
				if n > most {
					most = n
				}
			}
			switch {
			case len(bids) > 100:
				h.Label("scale:settlement-with->100-bids")
			case len(bids) > 12:
				h.Label("scale:settlement-with-13..100-bids")
			}
			if most > 100 {
				h.Label("scale:settlement-with->100-bids-of-one-bidder")
			}
			if len(bidders) > 16 {
				h.Label("scale:settlement-with->16-bidders")
			} else if len(bidders) > 8 {
				h.Label("scale:settlement-with-9..16-bidders")
			}
		}
	}
	if st.Op.Kind == OpPlaceBid {
		if n := len(post.BidsOf(st.Op.Auction)); n == 101 && len(st.Pre.BidsOf(st.Op.Auction)) == 100 {
			h.Label("scale:auction-reaches->100-stored-bids")
		}
	}
	if len(post.Allowed) > 100 && len(st.Pre.Allowed) <= 100 {
		h.Label("scale:>100-allow-list-entries")
	}
	// new auctions / bids
	for _, a := range post.Auctions {
		if _, ok := h.Terms[a.ID]; !ok {
			h.Terms[a.ID] = a.Terms()
			h.Created = append(h.Created, a.ID)
		}
	}
	if st.Op.Kind == OpPlaceBid {
		for _, b := range post.Bids {
			k := bidKey(b.Auction, b.ID)
			if _, ok := h.Bids[k]; !ok {
				info := &BidInfo{Auction: b.Auction, ID: b.ID, Owner: b.Bidder, Type: b.Type, Denom: b.Denom}
				if c := st.Pre.Cap(b.Auction, b.Bidder); c != nil {
					info.CapAtAccept = bcopy(c)
				}
				if a := post.Auction(b.Auction); a != nil && !a.IsBatch() {
					info.Qty = b.QtyAt(a.PayDenom, b.PriceM)
					cum := new(big.Int)
					for _, ob := range post.BidsOf(b.Auction) {
						if ob.Bidder == b.Bidder {
							cum.Add(cum, ob.QtyAt(a.PayDenom, ob.PriceM))
						}
					}
					info.CumQty = cum
				}
				h.Bids[k] = info
				h.BidKeys = append(h.BidKeys, k)
			}
		}
	}
	// donations
	if st.Op.Kind == OpDonate {
		h.addDonation(st.Op.Auction, st.Op.To, st.Op.Denom, bigOf(st.Op.Amount))
	}
	// flows
	for _, x := range st.Xfers {
		if id, role, ok := EscrowRole(post, x.To); ok && st.Op.Kind != OpDonate {
			a := post.Auction(id)
			if role == "paying" && x.Denom == a.PayDenom {
				addFlow(h.InP, id, x.From, x.Amt)
			}
		}
		if id, role, ok := EscrowRole(post, x.From); ok {
			a := post.Auction(id)
			if _, _, toEscrow := EscrowRole(post, x.To); toEscrow {
				continue // paying -> vesting move
			}
			if role == "selling" && x.Denom == a.SellDenom {
				addFlow(h.OutS, id, x.To, x.Amt)
			}
			if (role == "paying" || role == "vesting") && x.Denom == a.PayDenom {
				addFlow(h.OutP, id, x.To, x.Amt)
			}
		}
		if x.To == h.W.B.DistrAddr.String() {
			cur := h.Fees[x.Denom]
			if cur == nil {
				cur = new(big.Int)
			}
			h.Fees[x.Denom] = badd(cur, x.Amt)
		}
	}
	// sweeps + settlement records
	for _, tr := range st.Trans {
		if tr.Cancelled {
			st.SweptS[tr.ID] = bcopy(h.donated(tr.ID, "selling", tr.Post.SellDenom))
			if m := h.Donated[tr.ID]; m != nil && m["selling"] != nil {
				delete(m["selling"], tr.Post.SellDenom)
			}
		}
		if tr.Settled {
			rec := &SettleRec{Step: st.Idx, SweptS: bcopy(h.donated(tr.ID, "selling", tr.Post.SellDenom)), SweptP: bcopy(h.donated(tr.ID, "paying", tr.Post.PayDenom)), Caps: CapsOf(st.Pre, tr.ID)}
			bids := st.Pre.BidsOf(tr.ID)
			rec.Bids, rec.PayDenom = bids, tr.Pre.PayDenom
			if tr.Pre.IsBatch() {
				rec.Ref = RefMatch(bids, rec.Caps, tr.Pre.SellAmt, tr.Pre.PayDenom)
				rec.UsedPriceM = UsedPrice(tr.Post, rec.Ref)
				rec.Alloc = rec.Ref.Alloc
				rec.ReqSum = rec.Ref.ReqSum
			} else {
				rec.Alloc = map[string]*big.Int{}
				rec.ReqSum = map[string]*big.Int{}
				for _, b := range bids {
					if rec.Alloc[b.Bidder] == nil {
						rec.Alloc[b.Bidder] = new(big.Int)
						rec.ReqSum[b.Bidder] = new(big.Int)
					}
					rec.Alloc[b.Bidder].Add(rec.Alloc[b.Bidder], b.QtyAt(tr.Pre.PayDenom, b.PriceM))
					rec.ReqSum[b.Bidder].Add(rec.ReqSum[b.Bidder], b.Req(tr.Pre.PayDenom))
				}
			}
			h.Settle[tr.ID] = rec
			st.SweptS[tr.ID], st.SweptP[tr.ID] = rec.SweptS, rec.SweptP
			if m := h.Donated[tr.ID]; m != nil {
				if m["selling"] != nil {
					delete(m["selling"], tr.Post.SellDenom)
				}
				if m["paying"] != nil {
					delete(m["paying"], tr.Post.PayDenom)
				}
			}
		}
	}
}

// OpsLog returns the executed operations.
func (h *History) OpsLog() []Op {
	var out []Op
	for _, s := range h.Steps {
		if s.Raw.Kind != "" {
			out = append(out, s.Raw)
		} else {
			out = append(out, s.Op)
		}
	}
	return out
}

// Describe renders the history compactly for failure messages.
func (h *History) Describe() string {
	var sb strings.Builder
	for _, s := range h.Steps {
		status := "ok"
		if !s.Res.OK {
			status = "REJ(" + firstLine(s.Res.Err) + ")"
		}
		op := s.Op
		if s.Raw.Kind != "" {
			op = s.Raw
		}
		if s.Res.FaultHit != "" {
			status += " [injected fault hit: " + s.Res.FaultHit + "]"
		}
		fmt.Fprintf(&sb, "  #%d %s => %s\n", s.Idx, op.String(), status)
	}
	return sb.String()
}

func firstLine(s string) string {
	if i := strings.IndexByte(s, '\n'); i >= 0 {
		s = s[:i]
	}
	if len(s) > 140 {
		s = s[:140]
	}
	return s
}

func sortedKeys(m map[string]*big.Int) []string {
	var ks []string
	for k := range m {
		ks = append(ks, k)
	}
	sort.Strings(ks)
	return ks
}
