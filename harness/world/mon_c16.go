package world

import (
	"errors"
	"fmt"
	"math/big"
	"strings"

	sdkerrors "github.com/cosmos/cosmos-sdk/types/errors"
	"github.com/cosmos/cosmos-sdk/types/query"
	"google.golang.org/grpc/codes"
	"google.golang.org/grpc/status"

	"github.com/tendermint/fundraising/x/fundraising/keeper"
	"github.com/tendermint/fundraising/x/fundraising/types"
)

// C16 — published results agree with what was actually settled; queries return exactly the
// stored objects that satisfy the request.
type monC16 struct {
	settledFlags map[uint64]string // canonical bids of an auction right after its settlement
	paidVQ       map[string]bool
	queriesRun   int
}

func (m *monC16) Step(h *History, st *Step) []Violation {
	var vs []Violation
	if m.settledFlags == nil {
		m.settledFlags = map[uint64]string{}
		m.paidVQ = map[string]bool{}
	}
	post := st.Post
	ranQueries := false
	for _, tr := range st.Trans {
		// an instalment is flagged released exactly when it has been paid
		for _, v := range tr.ReleasedNow {
			paid := v.Amt.Sign() == 0
			for _, x := range st.Xfers {
				if x.From == tr.Post.VestingAddr && x.To == tr.Post.Auctioneer && x.Amt.Cmp(v.Amt) == 0 {
					paid = true
				}
			}
			if !paid {
				vs = append(vs, viol("C16/released-but-not-paid", "step #%d: instalment %s flagged released but no matching payment left the vesting escrow", st.Idx, v.Canon()))
			}
			m.paidVQ[vqKey(v)] = true
		}
		if !tr.Settled {
			continue
		}
		a := tr.Pre
		rec := h.Settle[tr.ID]
		bids := post.BidsOf(tr.ID)
		if !a.IsBatch() {
			for _, b := range bids {
				if !b.Matched {
					vs = append(vs, viol("C16/fixed-bid-not-flagged", "fixed price auction %d settled: %s is not flagged matched", a.ID, b.Canon()))
				}
			}
			h.Label("c16:fixed-settled")
			continue
		}
		r := rec.Ref
		h.Label("c16:batch-settled")
		// what was actually transferred in the final settlement
		f := flowsOfSettlement(st, a)
		recv := map[string]*big.Int{}
		distributed := new(big.Int)
		auctioneerBids := false
		for _, bd := range r.Bidders {
			got := zeroIfNil(f.S[bd])
			if bd == a.Auctioneer {
				auctioneerBids = true
			}
			recv[bd] = got
			distributed.Add(distributed, got)
		}
		if auctioneerBids {
			// the auctioneer's own allocation cannot be told apart from the unsold remainder it also
			// receives from the same escrow: this settlement is not judged
			h.Label("c16:skipped-auctioneer-bids-in-own-auction")
			ranQueries = true
			continue
		}
		// the clearing price that was used: a recorded bid price that is consistent with the observed
		// transfers (what each bidder received and paid); there may be several, or none when the
		// settlement itself is inconsistent, which is the business of C03 / C04, not of C16
		pub := zeroIfNil(tr.Post.MatchedPriceM)
		var candidates []*big.Int
		seen := map[string]bool{}
		for _, b := range preBidsOf(st, tr.ID) {
			if seen[b.PriceM.String()] {
				continue
			}
			seen[b.PriceM.String()] = true
			ok := true
			for _, bd := range r.Bidders {
				// consistent with the observed money flows: the bidder received no more than it asked
				// for at that price and paid price*quantity within the rounding bounds
				lo, hi, _, eligible, asked := PayBounds(rec.Bids, bd, rec.PayDenom, b.PriceM, recv[bd])
				paid := bsub(flowOf(h.InP, a.ID, bd), zeroIfNil(f.P[bd]))
				if recv[bd].Cmp(asked) > 0 || (recv[bd].Sign() > 0 && (eligible == 0 || paid.Cmp(lo) < 0 || paid.Cmp(hi) > 0)) || (recv[bd].Sign() == 0 && paid.Sign() != 0) {
					ok = false
					break
				}
			}
			if ok {
				candidates = append(candidates, b.PriceM)
			}
		}
		if distributed.Sign() == 0 {
			if pub.Sign() != 0 {
				vs = append(vs, viol("C16/matched-price", "batch auction %d settled and nothing was sold, but the published matched price is %s", a.ID, mstr(pub)))
			}
		} else {
			inCand := false
			for _, c := range candidates {
				if c.Cmp(pub) == 0 {
					inCand = true
				}
			}
			if pub.Sign() == 0 || (len(candidates) > 0 && !inCand) {
				var cs []string
				for _, c := range candidates {
					cs = append(cs, mstr(c))
				}
				vs = append(vs, viol("C16/matched-price", "batch auction %d settled and distributed %s coins; published matched price %s, the transfers correspond to clearing price(s) %v", a.ID, distributed, mstr(pub), cs))
			}
		}
		flaggedOf := map[string]int{}
		preBids := st.Pre.BidsOf(tr.ID)
		wasFlagged := false
		for i, b := range bids {
			if i < len(preBids) && preBids[i].Matched {
				wasFlagged = true
			}
			got := recv[b.Bidder]
			eligible := pub.Sign() > 0 && b.PriceM.Cmp(pub) >= 0 && b.QtyAt(a.PayDenom, pub).Sign() > 0
			if b.Matched {
				flaggedOf[b.Bidder]++
				if pub.Sign() > 0 && (!eligible || got.Sign() == 0) {
					sig := "C16/flagged-but-received-nothing"
					if i < len(preBids) && preBids[i].Matched {
						sig = "C16/stale-provisional-flag"
					}
					vs = append(vs, viol(sig, "batch auction %d settled at %s: %s is flagged matched but could not receive coins (eligible=%v, its bidder received %s)", a.ID, mstr(pub), b.Canon(), eligible, got))
				}
				if distributed.Sign() == 0 {
					sig := "C16/flagged-but-received-nothing"
					if i < len(preBids) && preBids[i].Matched {
						sig = "C16/stale-provisional-flag"
					}
					vs = append(vs, viol(sig, "batch auction %d settled with nothing sold but %s is flagged matched", a.ID, b.Canon()))
				}
			} else if eligible {
				// not flagged although eligible: fine only when the bidder's allowance ran out before this bid
				_, _, _, _, asked := PayBounds(rec.Bids, b.Bidder, rec.PayDenom, pub, got)
				if got.Cmp(asked) == 0 {
					vs = append(vs, viol("C16/received-but-not-flagged", "batch auction %d settled at %s: %s received coins (its bidder got its whole demand %s) but is not flagged matched", a.ID, mstr(pub), b.Canon(), asked))
				}
			}
		}
		for _, bd := range r.Bidders {
			if recv[bd].Sign() > 0 && flaggedOf[bd] == 0 {
				vs = append(vs, viol("C16/winner-without-flag", "batch auction %d settled: %s received %s coins but none of its bids is flagged matched", a.ID, short(bd), recv[bd]))
			}
		}
		if wasFlagged && len(a.EndTimes) > 1 {
			h.Label("c16:settled-after-provisional-matching")
			for i, b := range bids {
				if i < len(preBids) && preBids[i].Matched && !b.Matched {
					h.Label("c16:provisional-winner-not-in-final-settlement")
				}
			}
		}
		ranQueries = true
	}
	// flags of a settled auction never change afterwards
	for id, canon := range m.settledFlags {
		if now := bidsCanon(post.BidsOf(id)); now != canon {
			vs = append(vs, viol("C16/flags-changed-after-settlement", "step #%d (%s): bids of settled auction %d changed:\n%s\n->\n%s", st.Idx, st.Op.Kind, id, canon, now))
			m.settledFlags[id] = now
		}
	}
	for _, tr := range st.Trans {
		if tr.Settled {
			m.settledFlags[tr.ID] = bidsCanon(post.BidsOf(tr.ID))
		}
	}
	if ranQueries || (st.Idx%17 == 16) {
		vs = append(vs, m.checkQueries(h, st)...)
	}
	return vs
}

func bidsCanon(bs []*BidRec) string {
	var sb strings.Builder
	for _, b := range bs {
		sb.WriteString(b.Canon() + "\n")
	}
	return sb.String()
}

func (m *monC16) Final(h *History) []Violation {
	if len(h.Steps) == 0 {
		return nil
	}
	st := h.Steps[len(h.Steps)-1]
	var vs []Violation
	// released <=> paid, over the whole history
	for _, v := range st.Post.VQ {
		if v.Released != m.paidVQ[vqKey(v)] {
			vs = append(vs, viol("C16/released-flag-vs-payments", "instalment %s: released=%v but paid=%v", v.Canon(), v.Released, m.paidVQ[vqKey(v)]))
		}
	}
	return append(vs, m.checkQueries(h, st)...)
}

// checkQueries compares every query of the module with the model's filter of the snapshot.
func (m *monC16) checkQueries(h *History, st *Step) []Violation {
	var vs []Violation
	m.queriesRun++
	h.Label("c16:query-rounds")
	s := st.Post
	qs := keeper.NewQueryServerImpl(h.W.B.K)
	ctx := h.W.Ctx
	notFound := func(err error) bool {
		return err != nil && (errors.Is(err, sdkerrors.ErrKeyNotFound) || status.Code(err) == codes.NotFound)
	}
	// ---- by id ----
	ids := []uint64{uint64(len(s.Auctions)), 1 << 40}
	for _, a := range s.Auctions {
		ids = append(ids, a.ID)
	}
	for _, id := range ids {
		resp, err := qs.GetAuction(ctx, &types.QueryGetAuctionRequest{AuctionId: id})
		want := s.Auction(id)
		switch {
		case want == nil:
			if !notFound(err) {
				vs = append(vs, viol("C16/query/get-auction-missing", "GetAuction(%d) on a missing id returned %v, %v", id, resp, err))
			}
		case err != nil:
			vs = append(vs, viol("C16/query/get-auction", "GetAuction(%d) failed: %v", id, err))
		default:
			ai, uerr := types.UnpackAuction(resp.Auction)
			if uerr != nil || flatten(ai).Canon() != want.Canon() {
				vs = append(vs, viol("C16/query/get-auction", "GetAuction(%d) returned %v (unpack err %v), stored %s", id, ai, uerr, want.Canon()))
			}
		}
		for _, bid := range []uint64{0, 1, s.BidSeq[id], s.BidSeq[id] + 1} {
			resp, err := qs.GetBid(ctx, &types.QueryGetBidRequest{AuctionId: id, BidId: bid})
			wantB := s.Bid(id, bid)
			switch {
			case wantB == nil:
				if !notFound(err) {
					vs = append(vs, viol("C16/query/get-bid-missing", "GetBid(%d,%d) on a missing key returned %v, %v", id, bid, resp, err))
				}
			case err != nil:
				vs = append(vs, viol("C16/query/get-bid", "GetBid(%d,%d) failed: %v", id, bid, err))
			default:
				if FlattenBid(resp.Bid).Canon() != wantB.Canon() {
					vs = append(vs, viol("C16/query/get-bid", "GetBid(%d,%d) returned %s, stored %s", id, bid, FlattenBid(resp.Bid).Canon(), wantB.Canon()))
				}
			}
		}
		for _, acc := range []int{0, 3, Outsider} {
			addr := Addrs[acc].String()
			resp, err := qs.GetAllowedBidder(ctx, &types.QueryGetAllowedBidderRequest{AuctionId: id, Bidder: addr})
			wantC := s.Cap(id, addr)
			switch {
			case wantC == nil:
				if !notFound(err) {
					vs = append(vs, viol("C16/query/get-allowed-bidder-missing", "GetAllowedBidder(%d,%s) on a missing key returned %v, %v", id, short(addr), resp, err))
				}
			case err != nil:
				vs = append(vs, viol("C16/query/get-allowed-bidder", "GetAllowedBidder(%d,%s) failed: %v", id, short(addr), err))
			default:
				if IntB(resp.AllowedBidder.MaxBidAmount).Cmp(wantC) != 0 || resp.AllowedBidder.Bidder != addr || resp.AllowedBidder.AuctionId != id {
					vs = append(vs, viol("C16/query/get-allowed-bidder", "GetAllowedBidder(%d,%s) returned %v, stored cap %s", id, short(addr), resp.AllowedBidder, wantC))
				}
			}
		}
	}
	limits := []uint64{1, 2, 0}
	lim := limits[m.queriesRun%len(limits)]
	// ---- ListAuction: status/type filters ----
	statuses := []string{"", types.AuctionStatusStandBy.String(), types.AuctionStatusStarted.String(), types.AuctionStatusVesting.String(), types.AuctionStatusFinished.String(), types.AuctionStatusCancelled.String()}
	typs := []string{"", types.AuctionTypeFixedPrice.String(), types.AuctionTypeBatch.String()}
	for _, stt := range statuses {
		for _, ty := range typs {
			var want []string
			for _, a := range s.Auctions {
				if (stt == "" || a.Status.String() == stt) && (ty == "" || a.Type.String() == ty) {
					want = append(want, a.Canon())
				}
			}
			got, total, err := pageAll(lim, func(pr *query.PageRequest) ([]string, *query.PageResponse, error) {
				resp, err := qs.ListAuction(ctx, &types.QueryAllAuctionRequest{Status: stt, Type: ty, Pagination: pr})
				if err != nil {
					return nil, nil, err
				}
				var out []string
				for _, any := range resp.Auction {
					ai, uerr := types.UnpackAuction(any)
					if uerr != nil {
						return nil, nil, uerr
					}
					out = append(out, flatten(ai).Canon())
				}
				return out, resp.Pagination, nil
			})
			vs = append(vs, cmpList("C16/query/list-auction", fmt.Sprintf("ListAuction(status=%q,type=%q,limit=%d)", stt, ty, lim), want, got, total, err)...)
		}
	}
	if _, err := qs.ListAuction(ctx, &types.QueryAllAuctionRequest{Status: "AUCTION_STATUS_BOGUS"}); status.Code(err) != codes.InvalidArgument {
		vs = append(vs, viol("C16/query/list-auction-bad-filter", "ListAuction with an unknown status returned %v", err))
	}
	// ---- ListBid: auction id, bidder, matched filters ----
	for _, id := range ids {
		bidders := []string{"", Addrs[3].String(), Addrs[4].String(), Addrs[0].String()}
		for _, bd := range bidders {
			for _, im := range []string{"", "true", "false"} {
				var want []string
				for _, b := range s.BidsOf(id) {
					if (bd == "" || b.Bidder == bd) && (im == "" || fmt.Sprint(b.Matched) == im) {
						want = append(want, b.Canon())
					}
				}
				got, total, err := pageAll(lim, func(pr *query.PageRequest) ([]string, *query.PageResponse, error) {
					resp, err := qs.ListBid(ctx, &types.QueryAllBidRequest{AuctionId: id, Bidder: bd, IsMatched: im, Pagination: pr})
					if err != nil {
						return nil, nil, err
					}
					var out []string
					for _, b := range resp.Bid {
						out = append(out, FlattenBid(b).Canon())
					}
					return out, resp.Pagination, nil
				})
				vs = append(vs, cmpList("C16/query/list-bid", fmt.Sprintf("ListBid(auction=%d,bidder=%s,matched=%q,limit=%d)", id, short(bd), im, lim), want, got, total, err)...)
			}
		}
		// ---- ListVestingQueue / ListAllowedBidder by auction id ----
		var wantVQ, allVQ []string
		for _, v := range s.VQ {
			allVQ = append(allVQ, v.Canon())
			if v.Auction == id {
				wantVQ = append(wantVQ, v.Canon())
			}
		}
		got, total, err := pageAll(lim, func(pr *query.PageRequest) ([]string, *query.PageResponse, error) {
			resp, err := qs.ListVestingQueue(ctx, &types.QueryAllVestingQueueRequest{AuctionId: id, Pagination: pr})
			if err != nil {
				return nil, nil, err
			}
			var out []string
			for _, v := range resp.VestingQueue {
				out = append(out, (&VQRec{Auction: v.AuctionId, Auctioneer: v.Auctioneer, Denom: v.PayingCoin.Denom, Amt: IntB(v.PayingCoin.Amount), Release: v.ReleaseTime.UTC(), Released: v.Released}).Canon())
			}
			return out, resp.Pagination, nil
		})
		if strings.Join(got, "\n") == strings.Join(allVQ, "\n") && strings.Join(wantVQ, "\n") != strings.Join(allVQ, "\n") && err == nil {
			vs = append(vs, viol("C16/query/list-vesting-queue-ignores-auction-id", "ListVestingQueue(auction=%d) returned all %d instalments of all auctions instead of the %d of that auction", id, len(allVQ), len(wantVQ)))
		} else {
			vs = append(vs, cmpList("C16/query/list-vesting-queue", fmt.Sprintf("ListVestingQueue(auction=%d,limit=%d)", id, lim), wantVQ, got, total, err)...)
		}
		var wantAB, allAB []string
		for _, ab := range s.Allowed {
			allAB = append(allAB, ab.Canon())
			if ab.Auction == id {
				wantAB = append(wantAB, ab.Canon())
			}
		}
		got, total, err = pageAll(lim, func(pr *query.PageRequest) ([]string, *query.PageResponse, error) {
			resp, err := qs.ListAllowedBidder(ctx, &types.QueryAllAllowedBidderRequest{AuctionId: id, Pagination: pr})
			if err != nil {
				return nil, nil, err
			}
			var out []string
			for _, ab := range resp.AllowedBidder {
				out = append(out, (&AllowedRec{Auction: ab.AuctionId, Bidder: ab.Bidder, Max: IntB(ab.MaxBidAmount)}).Canon())
			}
			return out, resp.Pagination, nil
		})
		if strings.Join(got, "\n") == strings.Join(allAB, "\n") && strings.Join(wantAB, "\n") != strings.Join(allAB, "\n") && err == nil {
			vs = append(vs, viol("C16/query/list-allowed-bidder-ignores-auction-id", "ListAllowedBidder(auction=%d) returned all %d entries of all auctions instead of the %d of that auction", id, len(allAB), len(wantAB)))
		} else {
			vs = append(vs, cmpList("C16/query/list-allowed-bidder", fmt.Sprintf("ListAllowedBidder(auction=%d,limit=%d)", id, lim), wantAB, got, total, err)...)
		}
	}
	return vs
}

// pageAll walks a listing twice: key-based pages of the given limit, and one offset-based
// request with count_total; it returns the key-based traversal and the reported total.
func pageAll(limit uint64, call func(*query.PageRequest) ([]string, *query.PageResponse, error)) ([]string, int64, error) {
	var all []string
	var key []byte
	for i := 0; i < 10000; i++ {
		items, pr, err := call(&query.PageRequest{Key: key, Limit: limit})
		if err != nil {
			return nil, 0, err
		}
		all = append(all, items...)
		if pr == nil || len(pr.NextKey) == 0 {
			break
		}
		key = pr.NextKey
	}
	items, pr, err := call(&query.PageRequest{Offset: 0, Limit: 1 << 20, CountTotal: true})
	if err != nil {
		return nil, 0, err
	}
	if strings.Join(items, "\n") != strings.Join(all, "\n") {
		return all, -1, fmt.Errorf("key-based traversal (%d items) and offset-based listing (%d items) disagree", len(all), len(items))
	}
	total := int64(-1)
	if pr != nil {
		total = int64(pr.Total)
	}
	// the same listing in reverse order must be the mirror image
	rev, _, err := call(&query.PageRequest{Limit: 1 << 20, Reverse: true})
	if err != nil {
		return nil, 0, fmt.Errorf("reverse listing: %w", err)
	}
	if len(rev) != len(all) {
		return all, -1, fmt.Errorf("reverse listing has %d items, forward listing %d", len(rev), len(all))
	}
	for i := range rev {
		if rev[i] != all[len(all)-1-i] {
			return all, -1, fmt.Errorf("reverse listing is not the mirror image of the forward listing at position %d", i)
		}
	}
	// (an offset > 0 is not compared: the SDK's filtered pagination, which the module delegates to,
	// skips `offset` stored entries before filtering, so a page of a filtered listing is not a
	// slice of that listing - SDK semantics, not the module's)
	return all, total, nil
}

func cmpList(sig, what string, want, got []string, total int64, err error) []Violation {
	if err != nil {
		return []Violation{viol(sig, "%s failed: %v", what, err)}
	}
	if strings.Join(want, "\n") != strings.Join(got, "\n") {
		return []Violation{viol(sig, "%s returned %d objects, the stored objects satisfying the request are %d:\n got: %v\nwant: %v", what, len(got), len(want), got, want)}
	}
	if total >= 0 && total != int64(len(want)) {
		return []Violation{viol(sig+"-total", "%s reported total %d for %d objects", what, total, len(want))}
	}
	return nil
}

// CfgC16 is the configuration of C16.
func CfgC16() PropCfg {
	w := DefaultWeights()
	w.CreateFixed, w.CreateBatch = 4, 12
	w.PlaceBid, w.ModifyBid, w.UpdateAllowed, w.Block = 36, 10, 6, 24
	w.PerturbPct = 4
	w.SnipePct = 35
	w.FaultBlock = 3 // a settlement whose transfer fails must not be published as settled
	return PropCfg{ID: "C16", Weights: w, MinOps: 14, MaxOps: 60, DrivePct: 95,
		New: func() Monitor { return &monC16{} },
		NonTrivial: func(h *History) bool { return hasLabel(h, "c16:provisional-winner-not-in-final-settlement") },
		Rule: "K: batch auctions driven through extended rounds with outbidding, cap changes and modifications between end times, plus fixed-price auctions. After the final settlement: flagged => priced >= clearing price with positive quantity and its bidder received coins; winner => >=1 flagged bid; eligible bid of a bidder whose cap does not bind => flagged; published matched price == reference clearing price (0 if nothing sold); instalment flagged released <=> its payment left the vesting escrow; flags never change after settlement. Queries (every 17th op, at settlements, at the end): Get* by existing and missing keys; ListAuction x status x type, ListBid x auction x bidder x matched, ListVestingQueue / ListAllowedBidder x auction, each traversed by key-based pages (limit 1/2/default) and by offset with count_total, compared with the model's filter of the snapshot in key order. Non-trivial = a bid provisionally matched at an earlier end time that is not in the final settlement.",
	}
}

func preBidsOf(st *Step, id uint64) []*BidRec { return st.Pre.BidsOf(id) }
