package world

import (
	"fmt"
	"math/big"
	"sort"
	"strings"
	"time"

	"pgregory.net/rapid"

	"github.com/tendermint/fundraising/x/fundraising/types"
)

// Weights steer which operation kinds a history is made of. Every property uses the same
// vocabulary with its own weights so that its cases are spent where the property bites.
type Weights struct {
	CreateFixed, CreateBatch, AddAllowed, UpdateAllowed, PlaceBid, ModifyBid int
	Cancel, Donate, Block, UpdateParams, MsgAddAllowed, Reimport, FaultBlock int
	// PerturbPct is the probability (percent) that a message gets 1..2 perturbations aimed at
	// one of its preconditions.
	PerturbPct int
	// PoorPct is the probability (percent) that the history starts with accounts 5 and 6 holding
	// only small balances, so that "insufficient funds" is reachable.
	PoorPct int
	// Extreme enables the labelled extreme class of amounts/prices (C07, C18 only).
	Extreme bool
	// MaxAuctions bounds the number of auctions created in one history.
	MaxAuctions int
	// ManyInstalmentsPct: chance of a long vesting schedule (up to 100 entries).
	ManyInstalmentsPct int
	// SnipePct: chance that a bid on a batch auction that has already been extended is a sniping
	// bid (above every recorded price, for about the whole supply), which pushes provisional
	// winners out of the final settlement.
	SnipePct int
	// DonateWaitingPct: chance that a donation goes to the selling escrow of a waiting auction.
	DonateWaitingPct int
	// Bidders limits the number of distinct accounts that get allow-listed (0 = all 7): fewer
	// bidders means more bids per bidder.
	Bidders int
	// RoundsPool overrides the pool the maximum number of extended rounds is drawn from.
	RoundsPool []int
	// Hooks: the history starts with an OpHooks operation (C17 history part).
	Hooks bool
	// MsgFaultPct: chance (per mille) that a coin-moving message runs with a failing bank transfer.
	MsgFaultPct int
	// NoRollbackPct: chance that a keeper-level allow-list call is made by a module that ignores its error.
	NoRollbackPct int
	// UpperPct: chance that an operation writes its (valid) signer / bidder address in upper case;
	// bech32 allows both spellings and both denote the same account.
	UpperPct int
}

// DefaultWeights is the general mix.
func DefaultWeights() Weights {
	return Weights{CreateFixed: 6, CreateBatch: 8, AddAllowed: 10, UpdateAllowed: 4, PlaceBid: 30, ModifyBid: 10,
		Cancel: 3, Donate: 4, Block: 22, UpdateParams: 2, MsgAddAllowed: 1, PerturbPct: 12, PoorPct: 15, MaxAuctions: 4, ManyInstalmentsPct: 3, SnipePct: 10, DonateWaitingPct: 15, Reimport: 2, FaultBlock: 1, UpperPct: 3, MsgFaultPct: 15, NoRollbackPct: 40}
}

// Gen draws operations. All randomness comes from rapid draws.
type Gen struct {
	// burst: number of bids still to be placed on burstAuction (a crowded order book: more bids
	// than the sizes at which sort implementations switch algorithm, every account bidding)
	burst        int
	burstAuction uint64
	// burstBidder >= 0: every bid of the burst comes from this account; burstTiny: one-coin bids
	// (so that more than 100 of them fit: the default page size of the SDK's listings)
	burstBidder int
	burstTiny   bool
	// burstGoal: the burst ends when the auction holds this many bids (burst is the step budget)
	burstGoal int
	// burstQty: quantity of each bid of a huge burst on a fixed-price auction (about 1/105 of what
	// the bidder's allowance or the remainder leave, so that the burst ends by crossing that limit)
	burstQty *big.Int
	// flood: number of auctions still to be created in a row (more than 100 auctions alive at once)
	flood        int
	floodPending bool
	// tails: short follow-ups that operate on what a flood / huge burst has just built
	floodTail  int   // blocks and cancellations of the auctions created last
	capTail    int   // after a huge burst on a fixed-price auction: exhaust an allowance, then one more coin
	capAuction uint64
	capBidder  int
	newTail    int // after >100 bids of one bidder: a new fixed-price auction in which that bidder has a small allowance
	newBidder  int
	newAuction uint64
	// maxAuctions: per-history limit (W.MaxAuctions, or 12 for the occasional crowded history)
	maxAuctions int
	W            Weights
	// Labels counts generator classes for the evidence file.
	Labels map[string]int
}

func NewGen(w Weights) *Gen { return &Gen{W: w, Labels: map[string]int{}} }

func (g *Gen) label(s string) { g.Labels[s]++ }

// uni draws a (nearly) uniform integer in [0,n). rapid's integer generators are deliberately
// biased towards small values and bounds, which is wrong for choosing among classes; single
// bits are unbiased, so the value is composed from rapid.Bool draws (and still shrinks to 0).
func uni(t *rapid.T, label string, n int) int {
	if n <= 1 {
		return 0
	}
	k := 0
	for (1 << k) < n {
		k++
	}
	k += 3 // a few extra bits keep the modulo bias below 1/8 of a class
	v := 0
	for i := 0; i < k; i++ {
		v <<= 1
		if rapid.Bool().Draw(t, label) {
			v |= 1
		}
	}
	return v % n
}

func pct(t *rapid.T, p int, label string) bool {
	if p <= 0 {
		return false
	}
	if p >= 100 {
		return true
	}
	return uni(t, label, 100) < p
}

func pick[T any](t *rapid.T, label string, xs []T) T {
	return xs[uni(t, label, len(xs))]
}

// ---- numbers --------------------------------------------------------------------------------

func mstr(m *big.Int) string { return DecFromM(m).String() }

var ratDen = []int64{3, 6, 7, 9, 11, 13}

// drawPriceM draws a positive price mantissa from labelled classes.
func (g *Gen) drawPriceM(t *rapid.T, label string) *big.Int {
	if g.W.Extreme && pct(t, 12, label+"-extreme") {
		g.label("extreme:price")
		if pct(t, 50, label+"-extreme-low") {
			return bi(int64(rapid.IntRange(1, 9).Draw(t, label+"-xlow")))
		}
		return bmul(pow10(rapid.IntRange(7, 18).Draw(t, label+"-xpow")), E18)
	}
	switch uni(t, label+"-class", 10) {
	case 0, 1: // small integers
		return bmul(bi(int64(rapid.IntRange(1, 5).Draw(t, label+"-int"))), E18)
	case 2, 3, 4: // non-terminating ratios n/d truncated (or rounded up) to 18 places
		n := int64(rapid.IntRange(1, 20).Draw(t, label+"-n"))
		d := pick(t, label+"-d", ratDen)
		if pct(t, 50, label+"-roundup") {
			return ceilDiv(bmul(bi(n), E18), bi(d))
		}
		return floorDiv(bmul(bi(n), E18), bi(d))
	case 5: // halves/tenths
		return bmul(bi(int64(rapid.IntRange(1, 50).Draw(t, label+"-tenth"))), pow10(17))
	case 6: // random 18-digit fraction plus small integer part
		f := rapid.Int64Range(1, 999_999_999_999_999_999).Draw(t, label+"-frac")
		return badd(bmul(bi(int64(rapid.IntRange(0, 3).Draw(t, label+"-ip"))), E18), bi(f))
	case 7: // an integer give or take 1e-18 (quotients by such a price come out just below / above integers)
		k := pick(t, label+"-around", []int64{1, 1, 1, 2, 3, 4, 5, 8, 10, 100, 1000})
		return badd(bmul(bi(k), E18), bi(int64(rapid.IntRange(-1, 1).Draw(t, label+"-eps"))))
	case 8: // resolution limit / tiny
		return bi(int64(rapid.IntRange(1, 1000).Draw(t, label+"-tiny")))
	default: // large powers of ten
		return bmul(pow10(rapid.IntRange(1, 6).Draw(t, label+"-pow")), E18)
	}
}

// drawAmount draws a positive amount from labelled classes.
func (g *Gen) drawAmount(t *rapid.T, label string) *big.Int {
	if g.W.Extreme && pct(t, 12, label+"-extreme") {
		g.label("extreme:amount")
		return bmul(bi(int64(rapid.IntRange(1, 255).Draw(t, label+"-xmant"))), new(big.Int).Lsh(bigOne, uint(rapid.IntRange(100, 192).Draw(t, label+"-xbits"))))
	}
	switch uni(t, label+"-class", 10) {
	case 0, 1, 2, 3:
		return bi(int64(rapid.IntRange(1, 50).Draw(t, label+"-small")))
	case 4, 5, 6:
		return bi(rapid.Int64Range(51, 1_000_000_000).Draw(t, label+"-medium"))
	case 7:
		return bi(int64(rapid.IntRange(1, 3).Draw(t, label+"-tiny")))
	default:
		e := rapid.IntRange(10, 30).Draw(t, label+"-exp")
		return bmul(bi(rapid.Int64Range(1, 999).Draw(t, label+"-mant")), pow10(e))
	}
}

// around draws x-1, x, x+1 or something smaller, clamped to >= 1.
func (g *Gen) around(t *rapid.T, label string, x *big.Int) *big.Int {
	var v *big.Int
	switch uni(t, label+"-around", 6) {
	case 0:
		v = bsub(x, bigOne)
	case 1, 2:
		v = bcopy(x)
	case 3:
		v = badd(x, bigOne)
	default:
		if x.Cmp(bi(2)) < 0 {
			v = bcopy(x)
		} else if x.IsInt64() {
			v = bi(rapid.Int64Range(1, x.Int64()).Draw(t, label+"-below"))
		} else {
			v = floorDiv(x, bi(int64(rapid.IntRange(2, 9).Draw(t, label+"-div"))))
		}
	}
	if v.Sign() <= 0 {
		v = bi(1)
	}
	return v
}

// roundingSensitivePay solves c*1e18 = -eps (mod pM) for a small eps >= 1: then c/p lies eps/pM below
// an integer, which is less than 5e-19 when eps <= pM/2e18. Returns an amount that converts to at
// most room coins (nil when the price is below 2, not invertible, or nothing fits).
func roundingSensitivePay(pM, room *big.Int, k int) *big.Int {
	maxEps := floorDiv(pM, bmul(bi(2), E18))
	if maxEps.Sign() <= 0 || room.Sign() <= 0 {
		return nil
	}
	inv := new(big.Int).ModInverse(new(big.Int).Mod(E18, pM), pM)
	if inv == nil {
		return nil
	}
	eps := bi(1 + int64(k)%3)
	if eps.Cmp(maxEps) > 0 {
		eps = bi(1)
	}
	c0 := new(big.Int).Mod(new(big.Int).Neg(bmul(eps, inv)), pM)
	if c0.Sign() == 0 {
		return nil
	}
	limit := bmul(badd(room, bigOne), pM) // c*1e18 < (room+1)*pM  <=>  floor(c/p) <= room
	if bmul(c0, E18).Cmp(limit) >= 0 {
		return nil
	}
	// c0 + j*pM also solves it: take one of the solutions that still fit; every third time the
	// largest one (it converts to exactly room when truncated and to room+1 when rounded)
	span := floorDiv(bsub(bsub(limit, bigOne), bmul(c0, E18)), bmul(pM, E18))
	j := new(big.Int)
	if span.Sign() > 0 {
		if k%3 == 0 {
			j = span
		} else {
			j = new(big.Int).Mod(bi(int64(k)), badd(span, bigOne))
		}
	}
	return badd(c0, bmul(j, pM))
}

// ---- case prologue ---------------------------------------------------------------------------

// OpSetBalance is a harness-only operation of the case prologue: it moves coins between an
// account and the sink so that the account holds exactly Amount of Denom.
const OpSetBalance = "setBalance"

// Prologue draws the "genesis" of a case: parameters and, sometimes, poor accounts.
func (g *Gen) Prologue(t *rapid.T) []Op {
	var ops []Op
	if g.W.Hooks {
		ops = append(ops, genHooksOp(t))
	}
	g.burstBidder = -1
	if g.W.CreateFixed+g.W.CreateBatch > 0 && pct(t, 1, "auction-flood") {
		g.floodPending = true
	}
	g.maxAuctions = g.W.MaxAuctions
	if pct(t, 6, "many-auctions") {
		g.maxAuctions = 12 // more auctions alive at once than the usual 3-5
		g.label("history:up-to-12-auctions")
	}
	// parameters
	fee := pick(t, "creation-fee", []string{"", "100000000stake", "7stake", "3paya,5stake", "2paya"})
	bidFee := pick(t, "bid-fee", []string{"", "", "1stake", "2paya", "1payb,4stake"})
	period := pick(t, "ext-period", []uint32{1, 1, 0, 2, 7})
	ops = append(ops, Op{Kind: OpUpdateParams, Signer: -1, CreationFee: fee, BidFee: bidFee, ExtendedPeriod: period})
	g.label("params:creation-fee=" + fee)
	g.label("params:bid-fee=" + bidFee)
	g.label(fmt.Sprintf("params:period=%d", period))
	if pct(t, g.W.PoorPct, "poor") {
		g.label("prologue:poor-accounts")
		for _, acc := range []int{5, 6} {
			for _, d := range []string{"paya", "payb", "stake", "sella"} {
				amt := g.drawAmount(t, fmt.Sprintf("poor-%d-%s", acc, d))
				if amt.Cmp(pow10(12)) > 0 {
					amt = pow10(12)
				}
				ops = append(ops, Op{Kind: OpSetBalance, Signer: acc, Denom: d, Amount: amt.String()})
			}
		}
	}
	return ops
}

// ---- helpers over the snapshot ---------------------------------------------------------------

func auctionsWith(s *Snap, f func(*Auc) bool) []*Auc {
	var out []*Auc
	for _, a := range s.Auctions {
		if f(a) {
			out = append(out, a)
		}
	}
	return out
}

// Instants returns the interesting instants of the state that lie after now: starts, ends,
// the next extension end, releases — each exactly and one nanosecond around.
func Instants(s *Snap, now time.Time) []time.Time {
	set := map[int64]time.Time{}
	add := func(x time.Time) {
		for _, d := range []time.Duration{-1, 0, 1} {
			y := x.Add(d)
			if y.After(now) {
				set[y.UnixNano()] = y
			}
		}
	}
	for _, a := range s.Auctions {
		switch a.Status {
		case types.AuctionStatusStandBy:
			add(a.Start)
			add(a.LastEnd())
		case types.AuctionStatusStarted:
			add(a.LastEnd())
			if a.IsBatch() {
				add(a.LastEnd().AddDate(0, 0, int(s.Params.ExtendedPeriod)))
			}
			for _, sc := range a.Schedules {
				add(sc.Release)
			}
		case types.AuctionStatusVesting:
			for _, v := range s.VQOf(a.ID) {
				if !v.Released {
					add(v.Release)
				}
			}
		}
	}
	var out []time.Time
	for _, x := range set {
		out = append(out, x)
	}
	sort.Slice(out, func(i, j int) bool { return out[i].Before(out[j]) })
	return out
}

// ---- operation generators --------------------------------------------------------------------

// Next draws the next operation of a history given the current observed state.
// Busy reports whether the generator is in the middle of a burst or flood (those operations do not
// count against the length drawn for the history).
func (g *Gen) Busy() bool {
	return g.burst > 0 || g.flood > 0 || g.floodTail > 0 || g.capTail > 0 || g.newTail > 0
}

// maxWire is the largest amount a message can carry (math.Int is limited to 256 bits; one bit is
// left for sums).
var maxWire = new(big.Int).Sub(new(big.Int).Lsh(bigOne, 255), bigOne)

// Next draws the next operation. Amounts that could not be put on the wire (extreme class:
// products of 2^200-sized quantities and prices) are limited to 2^255-1.
func (g *Gen) Next(t *rapid.T, w *World, s *Snap) Op {
	o := g.next(t, w, s)
	if g.W.UpperPct > 0 {
		switch o.Kind {
		case OpCreateFixed, OpCreateBatch, OpCancel, OpPlaceBid, OpModifyBid, OpMsgAddAllowed:
			if o.SignerStr == "" && o.Signer >= 0 && o.Signer < len(Addrs) && pct(t, g.W.UpperPct, "upper-case-signer") {
				o.SignerStr = strings.ToUpper(Addrs[o.Signer].String())
				g.label("address-written-in-upper-case")
			}
		case OpAddAllowed:
			if o.BidderStr == "" && o.Bidder >= 0 && o.Bidder < len(Addrs) && pct(t, g.W.UpperPct, "upper-case-bidder") {
				o.BidderStr = strings.ToUpper(Addrs[o.Bidder].String())
				g.label("address-written-in-upper-case")
			}
		}
	}
	switch o.Kind {
	case OpCreateFixed, OpCreateBatch, OpCancel, OpPlaceBid, OpModifyBid:
		if g.W.MsgFaultPct > 0 && uni(t, "msg-bank-fault", 1000) < g.W.MsgFaultPct {
			o.BankFault = 1 + uni(t, "msg-bank-fault-at", 3)
			g.label("message-with-injected-bank-fault")
		}
	case OpAddAllowed, OpUpdateAllowed:
		if pct(t, g.W.NoRollbackPct, "no-rollback") {
			o.NoRollback = true
		}
	}
	for _, f := range []*string{&o.CoinAmount, &o.SellAmount, &o.MaxBid, &o.Amount} {
		if len(*f) > 70 { // more than 70 decimal digits: may exceed 255 bits
			if v, ok := new(big.Int).SetString(*f, 10); ok && v.Cmp(maxWire) > 0 {
				*f = maxWire.String()
				g.label("extreme:amount-limited-to-2^255")
			}
		}
	}
	return o
}

func (g *Gen) next(t *rapid.T, w *World, s *Snap) Op {
	if g.burst > 0 {
		g.burst--
		if a := s.Auction(g.burstAuction); a != nil && a.Status == types.AuctionStatusStarted && len(s.BidsOf(a.ID)) >= g.burstGoal {
			g.burst = 0
			if g.burstTiny {
				if !a.IsBatch() {
					if allowed := s.AllowedOf(a.ID); len(allowed) > 0 {
						g.capTail, g.capAuction = 2, a.ID
						g.capBidder = AddrIndex(pick(t, "cap-tail-bidder", allowed).Bidder)
					}
				}
				if g.burstBidder >= 0 {
					g.newTail, g.newBidder = 4, g.burstBidder
				}
			}
		} else if a != nil && a.Status == types.AuctionStatusStarted {
			// the crowd: further accounts are allow-listed as the burst goes on
			if n := len(s.AllowedOf(a.ID)); n < 30 && g.burstBidder < 0 && pct(t, 40, "burst-new-bidder") {
				idx := NumAccounts + uni(t, "burst-crowd", NumCrowd)
				if s.Cap(a.ID, Addrs[idx].String()) == nil {
					max := floorDiv(a.SellAmt, bi(int64(1+uni(t, "burst-cap-div", 6))))
					if max.Sign() <= 0 {
						max = bi(1)
					}
					return Op{Kind: OpAddAllowed, Auction: a.ID, Bidder: idx, MaxBid: max.String()}
				}
			}
			return g.genPlaceBidOn(t, w, s, a)
		}
		g.burst = 0
	}
	if g.capTail > 0 {
		g.capTail--
		if a := s.Auction(g.capAuction); a != nil && a.Status == types.AuctionStatusStarted && g.capBidder >= 0 {
			bidder := Addrs[g.capBidder].String()
			if c := s.Cap(a.ID, bidder); c != nil {
				left := bcopy(c)
				for _, b := range s.BidsOf(a.ID) {
					if b.Bidder == bidder {
						left.Sub(left, b.QtyAt(a.PayDenom, b.PriceM))
					}
				}
				qty := bmin(left, a.Remaining)
				if g.capTail == 0 || qty.Sign() <= 0 {
					qty = bi(1) // the allowance is used up: this one must be rejected
				}
				g.label("history:allowance-exhausted-after-a-huge-burst")
				return Op{Kind: OpPlaceBid, Auction: a.ID, Signer: g.capBidder, BidType: int32(types.BidTypeFixedPrice), Price: mstr(a.StartPriceM), CoinDenom: a.SellDenom, CoinAmount: qty.String()}
			}
		}
		g.capTail = 0
	}
	if g.newTail > 0 {
		g.newTail--
		switch g.newTail {
		case 3: // a fixed-price auction that is open at once
			g.newAuction = s.AuctionSeq
			g.label("history:new-auction-for-a-bidder-with->100-bids")
			return Op{Kind: OpCreateFixed, Signer: uni(t, "new-tail-auctioneer", 3), StartPrice: "1.000000000000000000", SellDenom: pick(t, "new-tail-sell", SellDenoms), SellAmount: "1000",
				PayDenom: pick(t, "new-tail-pay", PayDenoms), Start: w.Now.Add(-time.Hour), End: w.Now.Add(6 * time.Hour)}
		case 2:
			if a := s.Auction(g.newAuction); a != nil && !a.IsBatch() {
				return Op{Kind: OpAddAllowed, Auction: a.ID, Bidder: g.newBidder, MaxBid: "10"}
			}
			g.newTail = 0
		case 1, 0: // 6 + 6 > 10: the second one must be rejected
			if a := s.Auction(g.newAuction); a != nil && a.Status == types.AuctionStatusStarted {
				return Op{Kind: OpPlaceBid, Auction: a.ID, Signer: g.newBidder, BidType: int32(types.BidTypeFixedPrice), Price: mstr(a.StartPriceM), CoinDenom: a.SellDenom, CoinAmount: "6"}
			}
			g.newTail = 0
		}
	}
	if g.floodTail > 0 {
		g.floodTail--
		n := len(s.Auctions)
		switch {
		case g.floodTail == 0 && g.W.Reimport > 0:
			g.label("history:genesis-reimport")
			return Op{Kind: OpReimport} // with more than 100 records of several kinds in the store
		case g.floodTail%3 == 2 || n == 0:
			return g.genBlock(t, w, s)
		case g.floodTail%3 == 1:
			// one of the auctions created last: cancelled by its auctioneer (accepted only while waiting)
			a := s.Auctions[n-1-uni(t, "flood-tail-auction", minInt(n, 20))]
			g.label("history:cancel-of-a-late-auction-after-a-flood")
			return Op{Kind: OpCancel, Auction: a.ID, Signer: AddrIndex(a.Auctioneer)}
		default:
			// a bid on one of the auctions created last, by a bidder allow-listed there
			for k := 0; k < minInt(n, 40); k++ {
				a := s.Auctions[n-1-k]
				if al := s.AllowedOf(a.ID); a.Status == types.AuctionStatusStarted && len(al) > 0 {
					g.label("history:bid-on-a-late-auction-after-a-flood")
					return g.genPlaceBidOn(t, w, s, a)
				}
			}
			return g.genBlock(t, w, s)
		}
	}
	if g.flood > 0 {
		g.flood--
		if g.flood == 0 {
			g.floodTail = 19
		}
		kind := OpCreateFixed
		if pct(t, 50, "flood-batch") {
			kind = OpCreateBatch
		}
		o := g.genCreate(t, w, s, kind)
		if g.flood%2 == 0 && len(s.Auctions) > 0 { // every other step: an allow-list entry for the newest auction
			last := s.Auctions[len(s.Auctions)-1]
			return Op{Kind: OpAddAllowed, Auction: last.ID, Bidder: 3 + uni(t, "flood-bidder", 4), MaxBid: "1"}
		}
		return o
	}
	if g.floodPending && pct(t, 10, "flood-start") {
		g.floodPending = false
		g.flood = 2 * (115 + uni(t, "flood-len", 15))
		g.maxAuctions = 140
		g.label("history:auction-flood(>100 auctions, >100 allow-list entries)")
	}
	if open := auctionsWith(s, func(a *Auc) bool { return a.Status == types.AuctionStatusStarted }); len(open) > 0 && g.W.PlaceBid > 0 && pct(t, 2, "bid-burst") {
		a := pick(t, "burst-auction", open)
		g.burstGoal = len(s.BidsOf(a.ID)) + 13 + uni(t, "burst-len", 18)
		g.burst, g.burstAuction = 3*g.burstGoal, a.ID
		g.burstBidder, g.burstTiny = -1, false
		g.label("history:bid-burst(13-30 bids on one auction)")
		// more than 100 bids (the default page size of the SDK's paginated reads): needs an auction
		// with room for that many one-coin bids
		roomy := auctionsWith(s, func(a *Auc) bool {
			return a.Status == types.AuctionStatusStarted && (a.IsBatch() || a.Remaining.Cmp(bi(150)) >= 0)
		})
		if len(roomy) > 0 && pct(t, 25, "burst-huge") {
			a = pick(t, "burst-auction-huge", roomy)
			if fixedRoomy := auctionsWith(s, func(a *Auc) bool {
				return a.Status == types.AuctionStatusStarted && !a.IsBatch() && a.Remaining.Cmp(bi(150)) >= 0
			}); len(fixedRoomy) > 0 && pct(t, 60, "burst-huge-fixed") {
				a = pick(t, "burst-auction-huge-fixed", fixedRoomy)
			}
			g.burstAuction = a.ID
			g.burstGoal = 101 + uni(t, "burst-len-huge", 25)
			g.burst = 3 * g.burstGoal
			g.burstTiny = true
			g.label("history:bid-burst(>100 bids on one auction)")
			var able []int
			for _, ab := range s.AllowedOf(a.ID) {
				if i := AddrIndex(ab.Bidder); i >= 0 && (a.IsBatch() || ab.Max.Cmp(bi(150)) >= 0) {
					able = append(able, i)
				}
			}
			g.burstQty = bi(1)
			if !a.IsBatch() {
				g.burstQty = floorDiv(a.Remaining, bi(130))
			}
			if len(able) > 0 && pct(t, 50, "burst-single-bidder") {
				g.burstBidder = pick(t, "burst-bidder", able)
				g.label("history:bid-burst(>100 bids of one bidder)")
				if !a.IsBatch() {
					left := bcopy(s.Cap(a.ID, Addrs[g.burstBidder].String()))
					for _, b := range s.BidsOf(a.ID) {
						if b.Bidder == Addrs[g.burstBidder].String() {
							left.Sub(left, b.QtyAt(a.PayDenom, b.PriceM))
						}
					}
					g.burstQty = floorDiv(bmin(left, a.Remaining), bi(105))
					g.burstGoal = len(s.BidsOf(a.ID)) + 108 + uni(t, "burst-over", 10) // a few bids past the limit
					g.burst = g.burstGoal + 40
				}
			}
			if g.burstQty.Sign() <= 0 {
				g.burstQty = bi(1)
			}
		}
	}
	type choice struct {
		kind string
		wt   int
	}
	nA := len(s.Auctions)
	open := auctionsWith(s, func(a *Auc) bool { return a.Status == types.AuctionStatusStarted })
	var cs []choice
	maxA := g.maxAuctions
	if maxA == 0 {
		maxA = g.W.MaxAuctions
	}
	if nA < maxA {
		cs = append(cs, choice{OpCreateFixed, g.W.CreateFixed}, choice{OpCreateBatch, g.W.CreateBatch})
	}
	if nA > 0 {
		cs = append(cs, choice{OpAddAllowed, g.W.AddAllowed}, choice{OpUpdateAllowed, g.W.UpdateAllowed},
			choice{OpCancel, g.W.Cancel}, choice{OpDonate, g.W.Donate}, choice{OpMsgAddAllowed, g.W.MsgAddAllowed})
		pb, mb := g.W.PlaceBid, g.W.ModifyBid
		if len(open) == 0 { // bids are still generated (they must be rejected) but rarely
			pb, mb = pb/6, mb/6
		}
		cs = append(cs, choice{OpPlaceBid, pb}, choice{OpModifyBid, mb})
	}
	cs = append(cs, choice{OpBlock, g.W.Block}, choice{OpUpdateParams, g.W.UpdateParams})
	if nA > 0 {
		cs = append(cs, choice{OpReimport, g.W.Reimport}, choice{OpFaultBlock, g.W.FaultBlock})
	}
	total := 0
	for _, c := range cs {
		total += c.wt
	}
	if total == 0 {
		return g.genBlock(t, w, s)
	}
	x := uni(t, "kind", total)
	kind := OpBlock
	for _, c := range cs {
		if x < c.wt {
			kind = c.kind
			break
		}
		x -= c.wt
	}
	switch kind {
	case OpCreateFixed, OpCreateBatch:
		return g.genCreate(t, w, s, kind)
	case OpAddAllowed:
		return g.genAddAllowed(t, w, s)
	case OpUpdateAllowed:
		return g.genUpdateAllowed(t, w, s)
	case OpCancel:
		return g.genCancel(t, w, s)
	case OpDonate:
		return g.genDonate(t, w, s)
	case OpMsgAddAllowed:
		a := pick(t, "maa-auction", s.Auctions)
		return Op{Kind: OpMsgAddAllowed, Signer: rapid.IntRange(0, NumAccounts-1).Draw(t, "maa-signer"), Auction: a.ID,
			MaxBid: g.around(t, "maa-max", a.SellAmt).String()}
	case OpPlaceBid:
		return g.genPlaceBid(t, w, s)
	case OpModifyBid:
		return g.genModifyBid(t, w, s)
	case OpUpdateParams:
		return g.genUpdateParams(t, w, s)
	case OpReimport:
		g.label("history:genesis-reimport")
		return Op{Kind: OpReimport}
	case OpFaultBlock:
		o := g.genBlock(t, w, s)
		// inject the fault into one of the transfers this block really makes (counted by a dry run)
		m := countBlockTransfers(w, o.Time)
		if m == 0 {
			return o
		}
		o.Kind = OpFaultBlock
		o.FailAt = uni(t, "fail-at", m)
		g.label("history:block-with-injected-bank-fault")
		return o
	default:
		return g.genBlock(t, w, s)
	}
}

func (g *Gen) genBlock(t *rapid.T, w *World, s *Snap) Op {
	ins := Instants(s, w.Now)
	var bt time.Time
	mode := uni(t, "block-mode", 10)
	switch {
	case len(ins) > 0 && mode <= 5: // one of the next few interesting instants
		n := len(ins)
		if n > 6 {
			n = 6
		}
		bt = ins[rapid.IntRange(0, n-1).Draw(t, "block-instant")]
		g.label("block:on-instant")
	case len(ins) > 0 && mode <= 6: // skip several instants at once
		bt = ins[rapid.IntRange(0, len(ins)-1).Draw(t, "block-skip")]
		g.label("block:skip-instants")
	case mode <= 8: // a short step
		bt = w.Now.Add(time.Duration(rapid.Int64Range(1, int64(90*time.Minute)).Draw(t, "block-step")))
		g.label("block:short-step")
	default: // a long jump
		bt = w.Now.Add(time.Duration(rapid.IntRange(1, 400).Draw(t, "block-days")) * 24 * time.Hour)
		g.label("block:long-jump")
	}
	return Op{Kind: OpBlock, Time: bt}
}

// Weights01 cuts 10^18 into n positive parts (weights summing to exactly 1, by construction).
func (g *Gen) weights01(t *rapid.T, n int) []*big.Int {
	if n == 1 {
		return []*big.Int{bcopy(E18)}
	}
	var out []*big.Int
	mode := uni(t, "w-mode", 3)
	if n > 20 && mode == 2 {
		mode = 1
	}
	if mode == 0 { // equal shares, remainder on the last (1/3, 1/7 ... non-terminating)
		share := floorDiv(E18, bi(int64(n)))
		acc := new(big.Int)
		for i := 0; i < n-1; i++ {
			out = append(out, bcopy(share))
			acc.Add(acc, share)
		}
		return append(out, bsub(E18, acc))
	}
	// random cut points
	cuts := map[int64]bool{}
	for len(cuts) < n-1 {
		var c int64
		if mode == 1 {
			c = rapid.Int64Range(1, 999_999_999_999_999_999).Draw(t, "w-cut")
		} else {
			c = int64(rapid.IntRange(1, 99).Draw(t, "w-cut-pct")) * 10_000_000_000_000_000
		}
		cuts[c] = true
	}
	var cs []int64
	for c := range cuts {
		cs = append(cs, c)
	}
	sort.Slice(cs, func(i, j int) bool { return cs[i] < cs[j] })
	prev := int64(0)
	for _, c := range cs {
		out = append(out, bi(c-prev))
		prev = c
	}
	return append(out, bsub(E18, bi(prev)))
}

func (g *Gen) genCreate(t *rapid.T, w *World, s *Snap, kind string) Op {
	o := Op{Kind: kind, Signer: uni(t, "auctioneer", 3)}
	o.SellDenom = pick(t, "sell-denom", SellDenoms)
	o.PayDenom = pick(t, "pay-denom", PayDenoms)
	o.SellAmount = g.drawAmount(t, "sell-amount").String()
	o.StartPrice = mstr(g.drawPriceM(t, "start-price"))
	// times: start relative to now in hours (past, now, future), optional +-1ns
	sh := rapid.IntRange(-2, 4).Draw(t, "start-h")
	o.Start = w.Now.Truncate(time.Hour).Add(time.Duration(sh) * time.Hour)
	if sh == 0 && pct(t, 50, "start-exactly-now") {
		o.Start = w.Now
	}
	o.Start = o.Start.Add(time.Duration(rapid.IntRange(-1, 1).Draw(t, "start-ns")))
	eh := rapid.IntRange(1, 6).Draw(t, "end-h")
	o.End = o.Start.Add(time.Duration(eh) * time.Hour)
	if !o.End.After(w.Now) { // keep the valid variant valid: end >= now
		o.End = w.Now.Add(time.Duration(eh) * time.Hour)
		if pct(t, 30, "end-exactly-now") {
			o.End = w.Now
			if !o.End.After(o.Start) {
				o.Start = o.End.Add(-time.Hour)
			}
			g.label("create:end==now")
		}
	}
	// schedule
	n := uni(t, "n-sched", 5)
	if pct(t, g.W.ManyInstalmentsPct, "many-sched") {
		n = rapid.IntRange(5, 100).Draw(t, "n-sched-many")
		g.label("create:many-instalments")
	}
	if n > 0 {
		ws := g.weights01(t, n)
		rel := o.End
		for i := 0; i < n; i++ {
			if i == 0 && pct(t, 25, "release-just-after-end") {
				rel = rel.Add(1)
			} else if i > 0 && pct(t, 10, "release-within-a-second") {
				// consecutive instalments less than a second apart (release times have nanosecond resolution)
				rel = rel.Add(pick(t, "release-gap", []time.Duration{1, time.Millisecond, 500 * time.Millisecond, 999999999}))
				g.label("create:releases-within-one-second")
			} else {
				rel = rel.Add(time.Duration(rapid.IntRange(1, 30).Draw(t, "release-h")) * time.Hour)
			}
			o.Schedules = append(o.Schedules, Sched{Release: rel, Weight: mstr(ws[i])})
		}
	}
	if len(o.Schedules) >= 2 && pct(t, 4, "equal-release") {
		j := 1 + uni(t, "equal-release-idx", len(o.Schedules)-1)
		o.Schedules[j].Release = o.Schedules[j-1].Release
		g.label("create:equal-release-times")
	}
	g.label(fmt.Sprintf("create:schedules=%d", minInt(n, 5)))
	if g.W.Extreme && pct(t, 30, "extreme-auction") {
		o.SellAmount = new(big.Int).Lsh(bi(int64(rapid.IntRange(1, 15).Draw(t, "xa-mant"))), uint(rapid.IntRange(180, 200).Draw(t, "xa-bits"))).String()
		g.label("extreme:auction")
	}
	if kind == OpCreateBatch {
		sp := DecM(dec(o.StartPrice))
		// min bid price: below, equal or unrelated to start price
		switch uni(t, "min-mode", 4) {
		case 0:
			o.MinPrice = o.StartPrice
		case 1:
			m := floorDiv(sp, bi(int64(rapid.IntRange(2, 10).Draw(t, "min-div"))))
			if m.Sign() <= 0 {
				m = bi(1)
			}
			o.MinPrice = mstr(m)
		default:
			o.MinPrice = mstr(g.drawPriceM(t, "min-price"))
		}
		if g.W.Extreme && pct(t, 40, "extreme-min-price") {
			o.MinPrice = mstr(bi(int64(rapid.IntRange(1, 9).Draw(t, "xmin"))))
		}
		pool := []int{0, 0, 1, 1, 2, 3, 5, 30}
		if len(g.W.RoundsPool) > 0 {
			pool = g.W.RoundsPool
		}
		o.MaxRounds = uint32(pick(t, "max-rounds", pool))
		o.Rate = mstr(g.drawRateM(t))
		g.label(fmt.Sprintf("create:maxrounds=%d", o.MaxRounds))
	}
	if pct(t, g.W.PerturbPct, "perturb-create") {
		g.perturbCreate(t, w, s, &o)
	}
	return o
}

// drawRateM draws an extended round rate, biased to values 1-cur/last of small count pairs.
func (g *Gen) drawRateM(t *rapid.T) *big.Int {
	switch uni(t, "rate-class", 6) {
	case 0, 1, 2:
		// exactly 1 - cur/last rounded like an 18-digit decimal, +-1e-18
		last := int64(rapid.IntRange(1, 6).Draw(t, "rate-last"))
		cur := int64(rapid.IntRange(0, int(last)-0).Draw(t, "rate-cur"))
		if cur >= last {
			cur = last - 1
		}
		q := floorDiv(bmul(bi(cur), E18), bi(last))
		m := badd(bsub(E18, q), bi(int64(rapid.IntRange(-1, 1).Draw(t, "rate-eps"))))
		if m.Sign() <= 0 {
			m = bi(1)
		}
		return m
	case 3:
		return bmul(bi(int64(rapid.IntRange(1, 99).Draw(t, "rate-pct"))), pow10(16))
	case 4:
		return bi(int64(rapid.IntRange(1, 10).Draw(t, "rate-tiny")))
	default:
		return bmul(bi(int64(rapid.IntRange(1, 3).Draw(t, "rate-big"))), E18)
	}
}

func minInt(a, b int) int {
	if a < b {
		return a
	}
	return b
}

var badAddrs = []string{"", "cosmos1invalid", "osmo1hj5fveer5cjtn4wd6wstzugjfdxzl0xpwhpz63", "COSMOS1XYZ"}

func (g *Gen) perturbCreate(t *rapid.T, w *World, s *Snap, o *Op) {
	n := rapid.IntRange(1, 2).Draw(t, "n-perturb")
	for i := 0; i < n; i++ {
		k := uni(t, "perturb-create-kind", 18)
		if pct(t, 50, "perturb-create-near-valid") {
			// inputs one step away from valid ones: boundary instants and weights off by 1e-18
			k = pick(t, "perturb-create-near-kind", []int{6, 7, 8, 8, 9, 10, 16, 17})
		}
		g.label(fmt.Sprintf("perturb:create-%d", k))
		switch k {
		case 0:
			o.SignerStr = pick(t, "bad-addr", badAddrs)
			if o.SignerStr == "" {
				o.SignerStr = "x"
			}
		case 1:
			o.StartPrice = pick(t, "bad-price", []string{"0", "-1", "-0.000000000000000001"})
		case 2:
			o.SellAmount = pick(t, "bad-amt", []string{"0", "-1"})
		case 3:
			o.SellDenom = pick(t, "bad-denom", []string{"1x", "a", "sell a", ""})
		case 4:
			o.PayDenom = o.SellDenom
		case 5:
			o.PayDenom = pick(t, "bad-denom", []string{"1x", "a", ""})
		case 6: // end <= start
			o.End = o.Start.Add(time.Duration(rapid.IntRange(-1, 0).Draw(t, "end-le-start")))
		case 7: // end < now by 1ns / exactly now
			o.End = w.Now.Add(time.Duration(rapid.IntRange(-1, 0).Draw(t, "end-vs-now")))
			if !o.End.After(o.Start) {
				o.Start = o.End.Add(-time.Hour)
			}
			for j := range o.Schedules {
				if !o.Schedules[j].Release.After(o.End) {
					o.Schedules[j].Release = o.End.Add(time.Duration(j+1) * time.Hour)
				}
			}
		case 8: // weights off by 1e-18
			if len(o.Schedules) > 0 {
				j := rapid.IntRange(0, len(o.Schedules)-1).Draw(t, "w-idx")
				m := badd(DecM(dec(o.Schedules[j].Weight)), bi(int64(pick(t, "w-eps", []int{-1, 1}))))
				o.Schedules[j].Weight = mstr(m)
			}
		case 9: // release <= end
			if len(o.Schedules) > 0 {
				o.Schedules[0].Release = o.End.Add(time.Duration(rapid.IntRange(-1, 0).Draw(t, "rel-le-end")))
			}
		case 10: // non-chronological
			if len(o.Schedules) > 1 {
				j := rapid.IntRange(1, len(o.Schedules)-1).Draw(t, "nc-idx")
				o.Schedules[j].Release = o.Schedules[j-1].Release.Add(time.Duration(rapid.IntRange(-1, 0).Draw(t, "nc-d")))
			}
		case 11: // 101 entries (weights still sum to one)
			ws := g.weights01(t, 101)
			o.Schedules = nil
			rel := o.End
			for j := 0; j < 101; j++ {
				rel = rel.Add(time.Hour)
				o.Schedules = append(o.Schedules, Sched{Release: rel, Weight: mstr(ws[j])})
			}
		case 12:
			if o.Kind == OpCreateBatch {
				o.MaxRounds = uint32(pick(t, "rounds", []int{30, 31, 1000}))
			}
		case 13:
			if o.Kind == OpCreateBatch {
				o.Rate = pick(t, "bad-rate", []string{"0", "-0.5"})
			}
		case 14:
			if o.Kind == OpCreateBatch {
				o.MinPrice = pick(t, "bad-min", []string{"0", "-1"})
			}
		case 15: // poor signer
			o.Signer = pick(t, "poor-signer", []int{5, 6})
		case 16: // zero weight entry
			if len(o.Schedules) > 1 {
				o.Schedules[0].Weight = "0"
			}
		case 17: // exactly 100 entries is still fine
			ws := g.weights01(t, 100)
			o.Schedules = nil
			rel := o.End
			for j := 0; j < 100; j++ {
				rel = rel.Add(time.Hour)
				o.Schedules = append(o.Schedules, Sched{Release: rel, Weight: mstr(ws[j])})
			}
		}
	}
}

func (g *Gen) genAddAllowed(t *rapid.T, w *World, s *Snap) Op {
	a := pick(t, "aa-auction", s.Auctions)
	// mostly auctions that can still take bids (an entry for a settled auction changes nothing)
	if live := auctionsWith(s, func(a *Auc) bool {
		return a.Status == types.AuctionStatusStandBy || a.Status == types.AuctionStatusStarted
	}); len(live) > 0 && pct(t, 75, "aa-live") {
		a = pick(t, "aa-auction-live", live)
	}
	nb := Outsider
	if g.W.Bidders > 0 && g.W.Bidders < nb {
		nb = g.W.Bidders
	}
	o := Op{Kind: OpAddAllowed, Auction: a.ID, Bidder: uni(t, "aa-bidder", nb)}
	switch uni(t, "aa-max-mode", 6) {
	case 0, 1:
		o.MaxBid = a.SellAmt.String() // not binding
	case 2:
		o.MaxBid = "1"
	case 3:
		o.MaxBid = g.around(t, "aa-max", a.SellAmt).String() // incl. +1 (must be rejected)
	default:
		x := g.drawAmount(t, "aa-amt")
		if x.Cmp(a.SellAmt) > 0 {
			x = bcopy(a.SellAmt)
		}
		o.MaxBid = x.String()
	}
	if pct(t, g.W.PerturbPct/2, "perturb-aa") {
		switch uni(t, "perturb-aa-kind", 3) {
		case 0:
			o.Auction = a.ID + 100
		case 1:
			o.MaxBid = pick(t, "aa-bad", []string{"0", "-1"})
		case 2:
			o.BidderStr = "cosmos1invalid"
		}
	}
	return o
}

func (g *Gen) genUpdateAllowed(t *rapid.T, w *World, s *Snap) Op {
	if len(s.Allowed) == 0 {
		return g.genAddAllowed(t, w, s)
	}
	ab := pick(t, "ua-entry", s.Allowed)
	a := s.Auction(ab.Auction)
	o := Op{Kind: OpUpdateAllowed, Auction: ab.Auction, Bidder: AddrIndex(ab.Bidder)}
	// raise / lower / below already-bid total
	bidTotal := new(big.Int)
	for _, b := range s.BidsOf(ab.Auction) {
		if b.Bidder == ab.Bidder {
			bidTotal.Add(bidTotal, b.QtyAt(a.PayDenom, b.PriceM))
		}
	}
	switch uni(t, "ua-mode", 5) {
	case 0:
		o.MaxBid = badd(ab.Max, g.drawAmount(t, "ua-raise")).String()
	case 1:
		o.MaxBid = g.around(t, "ua-lower", ab.Max).String()
	case 2:
		if bidTotal.Sign() > 0 {
			o.MaxBid = g.around(t, "ua-below-bid", bidTotal).String()
			g.label("updateAllowed:around-bid-total")
		} else {
			o.MaxBid = "1"
		}
	case 3:
		o.MaxBid = "1"
	default:
		o.MaxBid = g.drawAmount(t, "ua-any").String()
	}
	if pct(t, g.W.PerturbPct/2, "perturb-ua") {
		switch pick(t, "perturb-ua-kind", []int{0, 1, 1, 1, 2}) {
		case 0:
			o.Bidder = Outsider
		case 1:
			o.MaxBid = pick(t, "ua-bad", []string{"0", "-5"})
		case 2:
			o.Auction += 100
		}
	}
	return o
}

func (g *Gen) genCancel(t *rapid.T, w *World, s *Snap) Op {
	// prefer waiting auctions (where cancel can succeed), but try every status
	waiting := auctionsWith(s, func(a *Auc) bool { return a.Status == types.AuctionStatusStandBy })
	var a *Auc
	if len(waiting) > 0 && pct(t, 60, "cancel-waiting") {
		a = pick(t, "cancel-auction", waiting)
	} else {
		a = pick(t, "cancel-auction-any", s.Auctions)
	}
	o := Op{Kind: OpCancel, Auction: a.ID, Signer: AddrIndex(a.Auctioneer)}
	if pct(t, 35, "cancel-wrong") {
		switch uni(t, "cancel-wrong-kind", 4) {
		case 0, 1:
			o.Signer = rapid.IntRange(0, NumAccounts-1).Draw(t, "cancel-signer")
		case 2:
			o.SignerStr = pick(t, "bad-addr", badAddrs[1:])
		case 3:
			o.Auction += 100
		}
	}
	return o
}

func (g *Gen) genDonate(t *rapid.T, w *World, s *Snap) Op {
	a := pick(t, "donate-auction", s.Auctions)
	o := Op{Kind: OpDonate, Signer: Outsider, Auction: a.ID, To: pick(t, "donate-to", []string{"selling", "paying", "vesting"})}
	if waiting := auctionsWith(s, func(x *Auc) bool { return x.Status == types.AuctionStatusStandBy }); len(waiting) > 0 && pct(t, g.W.DonateWaitingPct, "donate-waiting") {
		a = pick(t, "donate-waiting-auction", waiting)
		o.Auction, o.To = a.ID, "selling"
	}
	// a fixed-price auction that is (nearly) sold out: what reaches its selling escrow now is all it holds at the end
	if soldOut := auctionsWith(s, func(x *Auc) bool {
		return x.Status == types.AuctionStatusStarted && !x.IsBatch() && x.Remaining.Cmp(bi(1)) <= 0
	}); len(soldOut) > 0 && pct(t, 30, "donate-sold-out") {
		a = pick(t, "donate-sold-out-auction", soldOut)
		o.Auction, o.To = a.ID, "selling"
		g.label("donate:selling-escrow-of-a-sold-out-auction")
	}
	switch uni(t, "donate-denom", 4) {
	case 0, 1: // the relevant denom of that escrow
		if o.To == "selling" {
			o.Denom = a.SellDenom
		} else {
			o.Denom = a.PayDenom
		}
	case 2:
		o.Denom = "other"
	default:
		if o.To == "selling" {
			o.Denom = a.PayDenom
		} else {
			o.Denom = a.SellDenom
		}
	}
	amt := g.drawAmount(t, "donate-amt")
	if amt.Cmp(pow10(20)) > 0 {
		amt = pow10(20)
	}
	o.Amount = amt.String()
	g.label("donate:" + o.To)
	return o
}

func (g *Gen) genUpdateParams(t *rapid.T, w *World, s *Snap) Op {
	o := Op{Kind: OpUpdateParams, Signer: -1}
	o.CreationFee = pick(t, "creation-fee", []string{"", "100000000stake", "7stake", "3paya,5stake", "2paya"})
	o.BidFee = pick(t, "bid-fee", []string{"", "", "1stake", "2paya", "1payb,4stake"})
	o.ExtendedPeriod = pick(t, "ext-period", []uint32{1, 0, 2, 7})
	if g.W.Extreme && pct(t, 30, "extreme-period") {
		o.ExtendedPeriod = uint32(pick(t, "extreme-period-value", []int64{365, 36500, 90000, 3_000_000, 4294967295}))
		g.label("extreme:period")
	}
	if pct(t, g.W.PerturbPct*2, "perturb-params") {
		switch uni(t, "perturb-params-kind", 4) {
		case 0:
			o.Signer = rapid.IntRange(0, NumAccounts-1).Draw(t, "params-signer")
		case 1:
			o.RawFees = true
			o.CreationFee = pick(t, "raw-fee", []string{"5stake,3paya", "3paya,3paya", "0stake", "-1stake", "1STAKE!"})
		case 2:
			o.RawFees = true
			o.BidFee = pick(t, "raw-bid-fee", []string{"5stake,3paya", "0paya", "-2paya"})
		case 3:
			o.SignerStr = "cosmos1invalid"
		}
	}
	return o
}

// bidTarget picks the auction a bid operation is aimed at: usually an open one.
func (g *Gen) bidTarget(t *rapid.T, s *Snap, label string, batchOnly bool) *Auc {
	open := auctionsWith(s, func(a *Auc) bool {
		return a.Status == types.AuctionStatusStarted && (!batchOnly || a.IsBatch())
	})
	if len(open) > 0 && pct(t, 92, label+"-open") {
		return pick(t, label, open)
	}
	return pick(t, label+"-any", s.Auctions)
}

func (g *Gen) genPlaceBid(t *rapid.T, w *World, s *Snap) Op {
	return g.genPlaceBidOn(t, w, s, g.bidTarget(t, s, "bid-auction", false))
}

func (g *Gen) genPlaceBidOn(t *rapid.T, w *World, s *Snap, a *Auc) Op {
	o := Op{Kind: OpPlaceBid, Auction: a.ID}
	// bidder: prefer an allow-listed one
	allowed := s.AllowedOf(a.ID)
	more := 0
	switch len(allowed) {
	case 0:
		more = 85
	case 1:
		more = 35 // a second and third bidder: settlements with several winners, ties, refunds
	case 2:
		more = 15
	}
	if more > 0 && pct(t, more, "allow-first") {
		// nobody can bid yet: let "another module" allow-list somebody first
		o := g.genAddAllowed(t, w, s)
		o.Auction = a.ID
		if o.MaxBid != "" && bigOf(o.MaxBid).Cmp(a.SellAmt) > 0 {
			o.MaxBid = a.SellAmt.String()
		}
		if o.BidderStr == "" {
			for k := 0; k < Outsider && s.Cap(a.ID, Addrs[o.Bidder].String()) != nil; k++ {
				o.Bidder = (o.Bidder + 1) % Outsider // somebody who is not on the list yet
			}
		}
		return o
	}
	var cap *big.Int
	// an account that is listed (and has bid) on another auction but not on this one
	var foreign []int
	for _, ob := range s.Bids {
		if ob.Auction != a.ID && s.Cap(a.ID, ob.Bidder) == nil && AddrIndex(ob.Bidder) >= 0 {
			foreign = append(foreign, AddrIndex(ob.Bidder))
		}
	}
	if len(foreign) > 0 && pct(t, 6, "bid-foreign") {
		o.Signer = pick(t, "bid-foreign-bidder", foreign)
		cap = bcopy(a.SellAmt)
		g.label("bid:listed-on-another-auction-only")
	} else if g.burst > 0 && g.burstBidder >= 0 && s.Cap(a.ID, Addrs[g.burstBidder].String()) != nil {
		o.Signer = g.burstBidder
		cap = s.Cap(a.ID, Addrs[g.burstBidder].String())
	} else if len(allowed) > 0 && pct(t, 93, "bid-allowed") {
		ab := pick(t, "bid-bidder", allowed)
		o.Signer = AddrIndex(ab.Bidder)
		cap = ab.Max
	} else {
		o.Signer = rapid.IntRange(0, NumAccounts-1).Draw(t, "bid-bidder-any")
		cap = s.Cap(a.ID, Addrs[o.Signer].String())
		if cap == nil {
			g.label("bid:not-allow-listed")
			cap = bcopy(a.SellAmt)
		}
	}
	bidder := Addrs[o.Signer].String()
	if !a.IsBatch() {
		o.BidType = int32(types.BidTypeFixedPrice)
		o.Price = mstr(a.StartPriceM)
		used := new(big.Int)
		for _, b := range s.BidsOf(a.ID) {
			if b.Bidder == bidder {
				used.Add(used, b.QtyAt(a.PayDenom, b.PriceM))
			}
		}
		left := bsub(cap, used)
		room := bmin(left, a.Remaining)
		if room.Sign() <= 0 {
			room = bi(1)
		}
		var qty *big.Int
		if pct(t, 8, "fixed-paying-at-room-boundary") {
			// the largest paying amount that still converts to exactly what the allowance and the
			// remainder leave room for, or one unit more (which converts to room+1: must be rejected)
			o.CoinDenom = a.PayDenom
			pay := bsub(MulCeil(badd(room, bigOne), a.StartPriceM), bigOne)
			if QuoFloor(pay, a.StartPriceM).Cmp(room) > 0 { // (room+1)*p is an integer: step back to stay inside
				pay = bsub(pay, bigOne)
			}
			if pct(t, 35, "fixed-paying-just-over-room") {
				pay = MulCeil(badd(room, bigOne), a.StartPriceM)
			}
			if pay.Sign() <= 0 {
				pay = bi(1)
			}
			o.CoinAmount = pay.String()
			g.label("bid:fixed-paying-at-room-boundary")
			if pct(t, g.W.PerturbPct, "perturb-bid") {
				g.perturbBid(t, w, s, a, &o)
			}
			return o
		}
		switch uni(t, "fixed-qty-mode", 6) {
		case 0:
			qty = g.around(t, "fixed-qty-remaining", a.Remaining)
			g.label("bid:fixed-around-remaining")
		case 1:
			if left.Sign() > 0 {
				qty = g.around(t, "fixed-qty-allowance", left)
			} else {
				qty = bi(1)
			}
			g.label("bid:fixed-around-allowance")
		default:
			qty = g.drawAmount(t, "fixed-qty")
			if qty.Cmp(room) > 0 {
				if room.Cmp(bi(4)) >= 0 && pct(t, 60, "fixed-qty-part-of-room") {
					// a part of what is left, so that the auction stays open for other bidders
					qty = floorDiv(room, bi(int64(rapid.IntRange(2, 9).Draw(t, "fixed-qty-div"))))
				} else {
					qty = g.around(t, "fixed-qty-room", room)
				}
			}
		}
		if pct(t, 50, "fixed-pay-denom") {
			// paying-denominated: an amount that converts to qty (or one unit less: dust)
			o.CoinDenom = a.PayDenom
			pay := MulCeil(qty, a.StartPriceM)
			switch uni(t, "fixed-pay-mode", 4) {
			case 0:
				pay = bsub(pay, bigOne) // converts to qty-1 (or to zero: dust)
			case 1:
				pay = badd(pay, bi(int64(rapid.IntRange(0, 3).Draw(t, "fixed-pay-extra"))))
			}
			if pay.Sign() <= 0 {
				pay = bi(1)
			}
			if c := roundingSensitivePay(a.StartPriceM, room, uni(t, "fixed-pay-rs-k", 1000)); c != nil && pct(t, 60, "fixed-pay-rounding-sensitive") {
				// an amount whose quotient by the price lies less than 5e-19 below an integer:
				// truncating and rounding the quotient give different quantities
				pay = c
				g.label("bid:fixed-paying-quotient-within-5e-19-of-an-integer")
			} else if pct(t, 20, "fixed-pay-near-integer-quotient") {
				// among the 14 amounts from pay downwards take the one whose quotient by the price
				// lies closest below an integer
				best, bestR := pay, new(big.Int)
				for k := int64(0); k < 14; k++ {
					c := bsub(pay, bi(k))
					if c.Sign() <= 0 {
						break
					}
					r := new(big.Int).Mod(bmul(c, E18), a.StartPriceM)
					if r.Cmp(bestR) > 0 {
						best, bestR = c, r
					}
				}
				pay = best
				g.label("bid:fixed-paying-quotient-just-below-integer")
				if bmul(bsub(a.StartPriceM, bestR), bmul(bi(2), E18)).Cmp(a.StartPriceM) <= 0 {
					g.label("bid:fixed-paying-quotient-within-5e-19-of-an-integer")
				}
			}
			o.CoinAmount = pay.String()
			if QuoFloor(pay, a.StartPriceM).Sign() == 0 {
				g.label("bid:fixed-zero-quantity")
			}
		} else {
			o.CoinDenom = a.SellDenom
			o.CoinAmount = qty.String()
		}
		if g.burst > 0 && g.burstTiny { // one coin at a time, so that the whole burst fits
			o.CoinDenom, o.CoinAmount = a.SellDenom, g.burstQty.String()
		}
	} else {
		// price: min, one of the existing prices (ties), or a fresh one >= min
		var pM *big.Int
		bids := s.BidsOf(a.ID)
		switch uni(t, "batch-price-mode", 6) {
		case 0:
			pM = bcopy(a.MinPriceM)
		case 1, 2:
			if len(bids) > 0 {
				pM = bcopy(pick(t, "batch-price-existing", bids).PriceM)
				g.label("bid:batch-duplicate-price")
			}
		case 3:
			if len(bids) > 0 { // just above an existing price (outbid)
				pM = badd(pick(t, "batch-price-outbid", bids).PriceM, bi(int64(rapid.IntRange(1, 3).Draw(t, "outbid-eps"))))
			}
		}
		if pM == nil {
			pM = g.drawPriceM(t, "batch-price")
			if pM.Cmp(a.MinPriceM) < 0 {
				pM = badd(a.MinPriceM, pM)
			}
		}
		if len(a.EndTimes) > 1 && len(bids) > 0 && pct(t, g.W.SnipePct, "snipe") {
			top := bids[0].PriceM
			for _, b := range bids {
				if b.PriceM.Cmp(top) > 0 {
					top = b.PriceM
				}
			}
			o.Price = mstr(badd(top, bi(int64(rapid.IntRange(1, 1000).Draw(t, "snipe-eps")))))
			o.BidType, o.CoinDenom = int32(types.BidTypeBatchMany), a.SellDenom
			q := g.around(t, "snipe-qty", bmin(cap, a.SellAmt))
			o.CoinAmount = q.String()
			g.label("bid:snipe-after-extension")
			return o
		}
		if g.W.Extreme && a.SellAmt.BitLen() > 150 && pct(t, 50, "extreme-bid") {
			g.label("extreme:bid")
			if pct(t, 50, "extreme-bid-kind") {
				// a huge worth bid at a price >= 1
				pp := bmul(bi(int64(rapid.IntRange(1, 5).Draw(t, "xb-price"))), E18)
				if pp.Cmp(a.MinPriceM) < 0 {
					pp = bcopy(a.MinPriceM)
				}
				o.Price = mstr(pp)
				o.BidType, o.CoinDenom = int32(types.BidTypeBatchWorth), a.PayDenom
				o.CoinAmount = g.around(t, "xb-worth", cap).String()
			} else {
				// one coin at the minimum price pulls the clearing price down
				o.Price = mstr(a.MinPriceM)
				o.BidType, o.CoinDenom = int32(types.BidTypeBatchMany), a.SellDenom
				o.CoinAmount = "1"
			}
			return o
		}
		o.Price = mstr(pM)
		var qty *big.Int
		switch uni(t, "batch-qty-mode", 6) {
		case 0:
			qty = g.around(t, "batch-qty-cap", cap)
		case 1:
			qty = g.around(t, "batch-qty-supply", a.SellAmt)
		default:
			qty = g.drawAmount(t, "batch-qty")
			if qty.Cmp(cap) > 0 {
				qty = g.around(t, "batch-qty-capped", cap)
			}
		}
		if pct(t, 50, "batch-worth") {
			o.BidType = int32(types.BidTypeBatchWorth)
			o.CoinDenom = a.PayDenom
			worth := MulCeil(qty, pM)
			switch uni(t, "worth-mode", 5) {
			case 0: // dust: converts to zero at its own price
				if pM.Cmp(E18) > 0 {
					worth = bi(1)
					g.label("bid:batch-dust-worth")
				}
			case 1:
				worth = badd(worth, bi(int64(rapid.IntRange(0, 3).Draw(t, "worth-extra"))))
			}
			if worth.Sign() <= 0 {
				worth = bi(1)
			}
			o.CoinAmount = worth.String()
		} else {
			o.BidType = int32(types.BidTypeBatchMany)
			o.CoinDenom = a.SellDenom
			o.CoinAmount = qty.String()
		}
	}
	if pct(t, g.W.PerturbPct, "perturb-bid") {
		g.perturbBid(t, w, s, a, &o)
	}
	return o
}

func (g *Gen) perturbBid(t *rapid.T, w *World, s *Snap, a *Auc, o *Op) {
	n := rapid.IntRange(1, 2).Draw(t, "n-perturb")
	for i := 0; i < n; i++ {
		k := uni(t, "perturb-bid-kind", 14)
		if pct(t, 50, "perturb-bid-near-valid") {
			// well-formed bids that miss exactly one acceptance rule
			k = pick(t, "perturb-bid-near-kind", []int{6, 7, 8, 11, 12, 13, 13})
		}
		g.label(fmt.Sprintf("perturb:bid-%d", k))
		switch k {
		case 0:
			o.SignerStr = pick(t, "bad-addr", badAddrs[1:])
		case 1:
			o.Price = pick(t, "bad-price", []string{"0", "-1"})
		case 2:
			o.CoinAmount = pick(t, "bad-amt", []string{"0", "-3"})
		case 3:
			o.CoinDenom = pick(t, "bad-denom", []string{"1x", "a", ""})
		case 4:
			o.BidType = int32(pick(t, "bad-type", []int{0, 4, 1, 2, 3}))
		case 5:
			o.Auction = a.ID + 100
		case 6: // wrong denomination for the type
			if o.CoinDenom == a.PayDenom {
				o.CoinDenom = pick(t, "wrong-denom", []string{a.SellDenom, "other"})
			} else {
				o.CoinDenom = pick(t, "wrong-denom", []string{a.PayDenom, "other"})
			}
		case 7: // price off by 1e-18
			m := badd(DecM(dec(o.Price)), bi(int64(pick(t, "price-eps", []int{-1, 1}))))
			if m.Sign() > 0 {
				o.Price = mstr(m)
			}
		case 8: // below the minimum price by 1e-18
			if a.IsBatch() && a.MinPriceM.Cmp(bigOne) > 0 {
				o.Price = mstr(bsub(a.MinPriceM, bigOne))
			}
		case 9:
			o.Signer = Outsider
		case 10: // poor signer (needs an allow-list entry to be interesting)
			o.Signer = pick(t, "poor-signer", []int{5, 6})
		case 11: // amount just above allowance / remaining
			if o.CoinDenom == a.SellDenom {
				c := s.Cap(a.ID, o.SignerAddr())
				if c != nil {
					o.CoinAmount = badd(c, bigOne).String()
				}
			}
		case 12:
			if !a.IsBatch() && o.CoinDenom == a.SellDenom {
				o.CoinAmount = badd(a.Remaining, bigOne).String()
			}
		case 13: // a price far from the one generated (for a fixed price auction: not the start price)
			f := pick(t, "price-factor", [][2]int64{{2, 1}, {10, 1}, {3, 2}, {1, 2}, {1, 10}})
			m := floorDiv(bmul(DecM(dec(o.Price)), bi(f[0])), bi(f[1]))
			if m.Sign() > 0 {
				o.Price = mstr(m)
			}
		}
	}
}

func (g *Gen) genModifyBid(t *rapid.T, w *World, s *Snap) Op {
	a := g.bidTarget(t, s, "mod-auction", !pct(t, 15, "mod-any-type"))
	bids := s.BidsOf(a.ID)
	if len(bids) == 0 {
		// nothing to modify: aim at a missing bid (must be rejected) or place one instead
		if pct(t, 80, "mod-fallback-bid") {
			return g.genPlaceBid(t, w, s)
		}
		return Op{Kind: OpModifyBid, Auction: a.ID, BidID: 1, Signer: rapid.IntRange(0, NumAccounts-1).Draw(t, "mod-signer"),
			Price: mstr(g.drawPriceM(t, "mod-price")), CoinDenom: a.PayDenom, CoinAmount: "1"}
	}
	b := pick(t, "mod-bid", bids)
	o := Op{Kind: OpModifyBid, Auction: a.ID, BidID: b.ID, Signer: AddrIndex(b.Bidder), CoinDenom: b.Denom}
	newP, newA := bcopy(b.PriceM), bcopy(b.Amt)
	switch uni(t, "mod-mode", 7) {
	case 0: // raise price by the smallest step
		newP = badd(newP, bigOne)
	case 1: // raise price
		newP = badd(newP, g.drawPriceM(t, "mod-dprice"))
	case 2: // raise amount by one
		newA = badd(newA, bigOne)
	case 3: // raise amount
		newA = badd(newA, g.drawAmount(t, "mod-damount"))
	case 4: // both
		newP = badd(newP, bi(int64(rapid.IntRange(1, 1_000_000).Draw(t, "mod-dp-small"))))
		newA = badd(newA, bi(int64(rapid.IntRange(1, 100).Draw(t, "mod-da-small"))))
	case 5: // to a non-terminating price above
		r := floorDiv(bmul(bi(int64(rapid.IntRange(1, 9).Draw(t, "mod-n"))), E18), bi(pick(t, "mod-d", ratDen)))
		newP = badd(newP, r)
	case 6: // above the cap (allowed by the module at modification time)
		c := s.Cap(a.ID, b.Bidder)
		if c != nil && b.Denom == a.SellDenom {
			newA = badd(c, bi(int64(rapid.IntRange(1, 10).Draw(t, "mod-over-cap"))))
			if newA.Cmp(b.Amt) < 0 {
				newA = badd(b.Amt, bigOne)
			}
			g.label("modify:above-cap")
		} else {
			newA = badd(newA, bigOne)
		}
	}
	if pct(t, 25, "mod-wrong") {
		k := uni(t, "mod-wrong-kind", 9)
		g.label(fmt.Sprintf("perturb:modify-%d", k))
		switch k {
		case 0: // non-owner
			o.Signer = rapid.IntRange(0, NumAccounts-1).Draw(t, "mod-nonowner")
		case 1: // lower price by the smallest unit
			newP = bsub(b.PriceM, bigOne)
			if newP.Sign() <= 0 {
				newP = bcopy(b.PriceM)
			}
		case 2: // lower amount
			newA = bsub(b.Amt, bigOne)
			if newA.Sign() <= 0 {
				newA = bcopy(b.Amt)
			}
		case 3: // unchanged
			newP, newA = bcopy(b.PriceM), bcopy(b.Amt)
		case 4: // other denomination
			if o.CoinDenom == a.PayDenom {
				o.CoinDenom = a.SellDenom
			} else {
				o.CoinDenom = a.PayDenom
			}
		case 5:
			o.BidID = b.ID + 50
		case 6: // one higher one lower
			newP = badd(b.PriceM, bigOne)
			newA = bsub(b.Amt, bigOne)
			if newA.Sign() <= 0 {
				newA = bi(1)
			}
		case 7:
			o.SignerStr = "cosmos1invalid"
		case 8:
			o.Signer = pick(t, "poor-signer", []int{5, 6})
		}
	}
	o.Price = mstr(newP)
	o.CoinAmount = newA.String()
	return o
}
