package world

import (
	"math/big"
	"sort"
	"time"

	sdk "github.com/cosmos/cosmos-sdk/types"

	"github.com/tendermint/fundraising/x/fundraising/types"
)

// ---------------------------------------------------------------------------------------------
// Reference clearing (C03, C04, C05, C13, C16): a linear scan over the distinct bid prices in
// exact integer arithmetic. No binary search, no LegacyDec.
// ---------------------------------------------------------------------------------------------

// MatchRef is the reference result of clearing one order book.
type MatchRef struct {
	Sold    bool     // something is sold
	PStarM  *big.Int // clearing price mantissa (nil when nothing is sold)
	Total   *big.Int // total allocation
	Bidders []string // all bidders with at least one bid, sorted
	Alloc   map[string]*big.Int
	ReqSum  map[string]*big.Int // total reservation per bidder
	// Payment bounds per bidder (inclusive). When Exact[b] both are equal.
	PayLo map[string]*big.Int
	PayHi map[string]*big.Int
	Exact map[string]bool
	// CapBinds[b]: the bidder's uncapped demand at the clearing price exceeds its allowance.
	CapBinds map[string]bool
	// Eligible[b]: number of the bidder's bids priced >= p* with a positive quantity at p*.
	Eligible map[string]int
	LenLo    int // bounds on the number of matched bids
	LenHi    int
	// classification of the book
	Prices          int  // distinct prices
	RejectedPrices  int  // prices (below p*) rejected for over-demand
	DustTop         bool // a bid at the highest price converts to zero coins at that price
	DupAcrossBidder bool // two bidders share a price
	NothingFits     bool
	EverythingFits  bool // the lowest price qualifies
	AnyCapBinds     bool
}

// RefMatch clears the book. caps maps bidder -> allowance (bidders without entry get 0).
func RefMatch(bids []*BidRec, caps map[string]*big.Int, supply *big.Int, payDenom string) *MatchRef {
	r := &MatchRef{Total: new(big.Int), Alloc: map[string]*big.Int{}, ReqSum: map[string]*big.Int{}, PayLo: map[string]*big.Int{}, PayHi: map[string]*big.Int{}, Exact: map[string]bool{}, CapBinds: map[string]bool{}, Eligible: map[string]int{}}
	priceSet := map[string]*big.Int{}
	biddersAt := map[string]map[string]bool{}
	for _, b := range bids {
		priceSet[b.PriceM.String()] = b.PriceM
		if _, ok := r.ReqSum[b.Bidder]; !ok {
			r.ReqSum[b.Bidder] = new(big.Int)
			r.Alloc[b.Bidder] = new(big.Int)
			r.Bidders = append(r.Bidders, b.Bidder)
		}
		r.ReqSum[b.Bidder].Add(r.ReqSum[b.Bidder], b.Req(payDenom))
		if biddersAt[b.PriceM.String()] == nil {
			biddersAt[b.PriceM.String()] = map[string]bool{}
		}
		biddersAt[b.PriceM.String()][b.Bidder] = true
	}
	sort.Strings(r.Bidders)
	for _, m := range biddersAt {
		if len(m) > 1 {
			r.DupAcrossBidder = true
		}
	}
	var prices []*big.Int
	for _, p := range priceSet {
		prices = append(prices, p)
	}
	sort.Slice(prices, func(i, j int) bool { return prices[i].Cmp(prices[j]) < 0 })
	r.Prices = len(prices)
	for _, b := range r.Bidders {
		r.PayLo[b], r.PayHi[b], r.Exact[b] = new(big.Int), new(big.Int), true
	}
	if len(prices) == 0 {
		r.NothingFits = true
		return r
	}
	top := prices[len(prices)-1]
	for _, b := range bids {
		if b.PriceM.Cmp(top) == 0 && b.QtyAt(payDenom, top).Sign() == 0 {
			r.DustTop = true
		}
	}
	demandAt := func(p *big.Int) (total *big.Int, per map[string]*big.Int, raw map[string]*big.Int) {
		raw = map[string]*big.Int{}
		for _, b := range bids {
			if b.PriceM.Cmp(p) >= 0 {
				if raw[b.Bidder] == nil {
					raw[b.Bidder] = new(big.Int)
				}
				raw[b.Bidder].Add(raw[b.Bidder], b.QtyAt(payDenom, p))
			}
		}
		total = new(big.Int)
		per = map[string]*big.Int{}
		for bidder, d := range raw {
			c := caps[bidder]
			if c == nil {
				c = bigZero
			}
			per[bidder] = bmin(d, c)
			total.Add(total, per[bidder])
		}
		return
	}
	var pstar *big.Int
	for i, p := range prices {
		total, _, _ := demandAt(p)
		if total.Cmp(supply) <= 0 {
			pstar = p
			r.RejectedPrices = i
			if i == 0 {
				r.EverythingFits = true
			}
			break
		}
	}
	if pstar == nil {
		r.NothingFits = true
		r.RejectedPrices = len(prices)
		return r
	}
	total, per, raw := demandAt(pstar)
	if total.Sign() == 0 {
		return r
	}
	r.Sold = true
	r.PStarM = pstar
	r.Total = total
	for bidder, a := range per {
		r.Alloc[bidder] = a
		c := caps[bidder]
		if c == nil {
			c = bigZero
		}
		if raw[bidder].Cmp(c) > 0 {
			r.CapBinds[bidder] = true
			r.AnyCapBinds = true
		}
	}
	exactPay := map[string]*big.Int{}
	for _, b := range bids {
		if b.PriceM.Cmp(pstar) >= 0 {
			q := b.QtyAt(payDenom, pstar)
			if q.Sign() > 0 {
				r.Eligible[b.Bidder]++
				if exactPay[b.Bidder] == nil {
					exactPay[b.Bidder] = new(big.Int)
				}
				exactPay[b.Bidder].Add(exactPay[b.Bidder], MulCeil(q, pstar))
			}
		}
	}
	for _, bidder := range r.Bidders {
		a := r.Alloc[bidder]
		if a.Sign() == 0 {
			continue
		}
		if !r.CapBinds[bidder] {
			r.PayLo[bidder], r.PayHi[bidder] = exactPay[bidder], exactPay[bidder]
			r.LenLo += r.Eligible[bidder]
		} else {
			r.Exact[bidder] = false
			// p*·a <= payment < p*·a + m
			pa := bmul(a, pstar) // scaled by 1e18
			r.PayLo[bidder] = ceilDiv(pa, E18)
			hi := ceilDiv(badd(pa, bmul(bi(int64(r.Eligible[bidder])), E18)), E18)
			r.PayHi[bidder] = bsub(hi, bigOne)
			r.LenLo++
		}
		r.LenHi += r.Eligible[bidder]
	}
	return r
}

// CapsOf builds the allowance map of an auction from a snapshot.
func CapsOf(s *Snap, auction uint64) map[string]*big.Int {
	m := map[string]*big.Int{}
	for _, a := range s.AllowedOf(auction) {
		m[a.Bidder] = a.Max
	}
	return m
}

// RefVesting splits proceeds over a schedule: floor shares, remainder to the last (C09).
func RefVesting(proceeds *big.Int, sched []SchedRec) []*big.Int {
	out := make([]*big.Int, len(sched))
	rem := bcopy(proceeds)
	for i, s := range sched {
		if i == len(sched)-1 {
			out[i] = rem
			break
		}
		out[i] = MulFloor(proceeds, s.WeightM)
		rem = bsub(rem, out[i])
	}
	return out
}

// ---------------------------------------------------------------------------------------------
// Acceptance predicates (C06, C11, C12, C18) — see DESIGN.md Appendix A for the sources.
// ---------------------------------------------------------------------------------------------

// ValidAddr reports whether s is a well-formed account address of this chain.
func ValidAddr(s string) bool {
	_, err := sdk.AccAddressFromBech32(s)
	return err == nil
}

func validDenom(d string) bool { return sdk.ValidateDenom(d) == nil }

// schedValid is the documented schedule validity: empty, or positive weights <= 1 summing to
// exactly 1, release times strictly increasing and after the end time.
func schedValid(sc []Sched, end time.Time) (bool, string) {
	if len(sc) == 0 {
		return true, ""
	}
	sum := new(big.Int)
	var prev time.Time
	for i, s := range sc {
		w := DecM(dec(s.Weight))
		if w.Sign() <= 0 {
			return false, "weight-not-positive"
		}
		if !s.Release.After(end) {
			return false, "release-not-after-end"
		}
		if i > 0 && !s.Release.After(prev) {
			return false, "release-not-chronological"
		}
		if w.Cmp(E18) > 0 {
			return false, "weight-above-one"
		}
		sum.Add(sum, w)
		prev = s.Release
	}
	if sum.Cmp(E18) != 0 {
		return false, "weights-not-one"
	}
	return true, ""
}

// canPay reports whether addr holds all of need (map denom -> amount) in snapshot s.
func canPay(s *Snap, addr string, need map[string]*big.Int) bool {
	for d, v := range need {
		if s.BalOf(addr, d).Cmp(v) < 0 {
			return false
		}
	}
	return true
}

func addNeed(need map[string]*big.Int, coins sdk.Coins) {
	for _, c := range coins {
		if need[c.Denom] == nil {
			need[c.Denom] = new(big.Int)
		}
		need[c.Denom].Add(need[c.Denom], c.Amount.BigInt())
	}
}

// Expect is the predicted outcome of a message.
type Expect struct {
	Accept bool
	Reason string // first failing conjunct (documentation / labels)
	// for accepted bids and modifications
	Charge *big.Int // paying coin the signer must be charged beyond the fee
	Qty    *big.Int // selling quantity of a fixed-price bid
}

func reject(reason string) Expect { return Expect{Reason: reason} }

// RefAccept predicts whether the implementation must accept the message operation o when
// executed on state pre at block time now.
func RefAccept(pre *Snap, o Op, now time.Time, govAddr string) Expect {
	switch o.Kind {
	case OpCreateFixed, OpCreateBatch:
		return refCreate(pre, o, now)
	case OpCancel:
		if !ValidAddr(o.SignerAddr()) {
			return reject("bad-address")
		}
		a := pre.Auction(o.Auction)
		if a == nil {
			return reject("no-auction")
		}
		if a.Auctioneer != o.SignerAddr() {
			return reject("not-auctioneer")
		}
		if a.Status != types.AuctionStatusStandBy {
			return reject("status")
		}
		return Expect{Accept: true}
	case OpPlaceBid:
		return refPlaceBid(pre, o)
	case OpModifyBid:
		return refModifyBid(pre, o)
	case OpMsgAddAllowed:
		return reject("disabled-in-default-build")
	case OpUpdateParams:
		auth := o.SignerStr
		if auth == "" {
			if o.Signer < 0 {
				auth = govAddr
			} else {
				auth = o.SignerAddr()
			}
		}
		if !ValidAddr(auth) {
			return reject("bad-address")
		}
		if auth != govAddr {
			return reject("not-authority")
		}
		if ParseCoins(o.CreationFee, o.RawFees).Validate() != nil {
			return reject("bad-creation-fee")
		}
		if ParseCoins(o.BidFee, o.RawFees).Validate() != nil {
			return reject("bad-bid-fee")
		}
		return Expect{Accept: true}
	}
	panic("RefAccept: not a message: " + o.Kind)
}

func refCreate(pre *Snap, o Op, now time.Time) Expect {
	if !ValidAddr(o.SignerAddr()) {
		return reject("bad-address")
	}
	if DecM(dec(o.StartPrice)).Sign() <= 0 {
		return reject("start-price")
	}
	if o.Kind == OpCreateBatch && DecM(dec(o.MinPrice)).Sign() <= 0 {
		return reject("min-price")
	}
	amt := bigOf(o.SellAmount)
	if !validDenom(o.SellDenom) || amt.Sign() < 0 {
		return reject("selling-coin-invalid")
	}
	if amt.Sign() == 0 {
		return reject("selling-amount-zero")
	}
	if o.SellDenom == o.PayDenom {
		return reject("same-denom")
	}
	if !validDenom(o.PayDenom) {
		return reject("paying-denom")
	}
	if !o.End.After(o.Start) {
		return reject("end-not-after-start")
	}
	if o.Kind == OpCreateBatch && DecM(dec(o.Rate)).Sign() <= 0 {
		return reject("rate")
	}
	if ok, why := schedValid(o.Schedules, o.End); !ok {
		return reject("schedule-" + why)
	}
	if now.After(o.End) {
		return reject("end-before-now")
	}
	if len(o.Schedules) > types.MaxNumVestingSchedules {
		return reject("too-many-schedules")
	}
	if o.Kind == OpCreateBatch && o.MaxRounds > types.MaxExtendedRound {
		return reject("too-many-rounds")
	}
	need := map[string]*big.Int{}
	addNeed(need, pre.Params.AuctionCreationFee)
	if !canPay(pre, o.SignerAddr(), need) {
		return reject("funds-fee")
	}
	addNeed(need, sdk.Coins{rawCoin(o.SellDenom, o.SellAmount)})
	if !canPay(pre, o.SignerAddr(), need) {
		return reject("funds-selling")
	}
	return Expect{Accept: true}
}

func refPlaceBid(pre *Snap, o Op) Expect {
	bidder := o.SignerAddr()
	if !ValidAddr(bidder) {
		return reject("bad-address")
	}
	priceM := DecM(dec(o.Price))
	if priceM.Sign() <= 0 {
		return reject("price")
	}
	amt := bigOf(o.CoinAmount)
	if !validDenom(o.CoinDenom) || amt.Sign() < 0 {
		return reject("coin-invalid")
	}
	if amt.Sign() == 0 {
		return reject("coin-zero")
	}
	bt := types.BidType(o.BidType)
	if bt != types.BidTypeFixedPrice && bt != types.BidTypeBatchWorth && bt != types.BidTypeBatchMany {
		return reject("bid-type")
	}
	a := pre.Auction(o.Auction)
	if a == nil {
		return reject("no-auction")
	}
	if a.Status != types.AuctionStatusStarted {
		return reject("status")
	}
	if a.IsBatch() && priceM.Cmp(a.MinPriceM) < 0 {
		return reject("below-min-price")
	}
	cap := pre.Cap(a.ID, bidder)
	if cap == nil {
		return reject("not-allowed")
	}
	need := map[string]*big.Int{}
	addNeed(need, pre.Params.PlaceBidFee)
	if !canPay(pre, bidder, need) {
		return reject("funds-fee")
	}
	b := &BidRec{Auction: a.ID, Bidder: bidder, Type: bt, PriceM: priceM, Denom: o.CoinDenom, Amt: amt}
	var qty *big.Int
	switch bt {
	case types.BidTypeFixedPrice:
		if a.IsBatch() {
			return reject("type-mismatch")
		}
		if o.CoinDenom != a.PayDenom && o.CoinDenom != a.SellDenom {
			return reject("denom")
		}
		if priceM.Cmp(a.StartPriceM) != 0 {
			return reject("not-start-price")
		}
		qty = b.QtyAt(a.PayDenom, priceM)
		if a.Remaining.Cmp(qty) < 0 {
			return reject("remaining")
		}
		total := bcopy(qty)
		for _, ob := range pre.BidsOf(a.ID) {
			if ob.Bidder == bidder {
				total.Add(total, ob.QtyAt(a.PayDenom, ob.PriceM))
			}
		}
		if total.Cmp(cap) > 0 {
			return reject("allowance")
		}
	case types.BidTypeBatchWorth:
		if !a.IsBatch() {
			return reject("type-mismatch")
		}
		if o.CoinDenom != a.PayDenom {
			return reject("denom")
		}
		if b.QtyAt(a.PayDenom, priceM).Cmp(cap) > 0 {
			return reject("allowance")
		}
	case types.BidTypeBatchMany:
		if !a.IsBatch() {
			return reject("type-mismatch")
		}
		if o.CoinDenom != a.SellDenom {
			return reject("denom")
		}
		if amt.Cmp(cap) > 0 {
			return reject("allowance")
		}
	}
	charge := b.Req(a.PayDenom)
	addNeed(need, sdk.Coins{sdk.Coin{Denom: a.PayDenom, Amount: IntFromB(charge)}})
	if !canPay(pre, bidder, need) {
		return reject("funds-reserve")
	}
	return Expect{Accept: true, Charge: charge, Qty: qty}
}

func refModifyBid(pre *Snap, o Op) Expect {
	bidder := o.SignerAddr()
	if !ValidAddr(bidder) {
		return reject("bad-address")
	}
	priceM := DecM(dec(o.Price))
	if priceM.Sign() <= 0 {
		return reject("price")
	}
	amt := bigOf(o.CoinAmount)
	if !validDenom(o.CoinDenom) || amt.Sign() < 0 {
		return reject("coin-invalid")
	}
	if amt.Sign() == 0 {
		return reject("coin-zero")
	}
	a := pre.Auction(o.Auction)
	if a == nil {
		return reject("no-auction")
	}
	if a.Status != types.AuctionStatusStarted {
		return reject("status")
	}
	if !a.IsBatch() {
		return reject("not-batch")
	}
	old := pre.Bid(o.Auction, o.BidID)
	if old == nil {
		return reject("no-bid")
	}
	if old.Bidder != bidder {
		return reject("not-owner")
	}
	if priceM.Cmp(a.MinPriceM) < 0 {
		return reject("below-min-price")
	}
	if old.Denom != o.CoinDenom {
		return reject("denom")
	}
	if priceM.Cmp(old.PriceM) < 0 || amt.Cmp(old.Amt) < 0 {
		return reject("lower")
	}
	if priceM.Cmp(old.PriceM) == 0 && amt.Cmp(old.Amt) == 0 {
		return reject("unchanged")
	}
	nb := &BidRec{Type: old.Type, PriceM: priceM, Denom: o.CoinDenom, Amt: amt}
	charge := bsub(nb.Req(a.PayDenom), old.Req(a.PayDenom))
	if charge.Sign() > 0 && pre.BalOf(bidder, a.PayDenom).Cmp(charge) < 0 {
		return reject("funds-reserve")
	}
	return Expect{Accept: true, Charge: charge}
}

// PayBounds returns the bounds of what a bidder pays for receiving amount a at the uniform price
// pM, given its bids: price*quantity <= payment < price*quantity + (matched bids). When the
// bidder received its whole uncapped demand at pM the payment is exactly the sum of the per-bid
// ceilings. eligible is the number of its bids priced >= pM with a positive quantity at pM and
// asked the sum of those quantities.
func PayBounds(bids []*BidRec, bidder, payDenom string, pM, a *big.Int) (lo, hi *big.Int, exact bool, eligible int, asked *big.Int) {
	asked = new(big.Int)
	exactPay := new(big.Int)
	for _, b := range bids {
		if b.Bidder != bidder || b.PriceM.Cmp(pM) < 0 {
			continue
		}
		q := b.QtyAt(payDenom, pM)
		if q.Sign() > 0 {
			eligible++
			asked.Add(asked, q)
			exactPay.Add(exactPay, MulCeil(q, pM))
		}
	}
	if a.Cmp(asked) == 0 {
		return exactPay, exactPay, true, eligible, asked
	}
	pa := bmul(a, pM)
	lo = ceilDiv(pa, E18)
	hi = bsub(ceilDiv(badd(pa, bmul(bi(int64(eligible)), E18)), E18), bigOne)
	if hi.Cmp(lo) < 0 {
		hi = lo
	}
	return lo, hi, false, eligible, asked
}

// UsedPrice is the uniform price a settled batch auction used: the published matched price when
// it is positive, otherwise the reference clearing price (nil when nothing was sold).
func UsedPrice(post *Auc, ref *MatchRef) *big.Int {
	if post != nil && post.MatchedPriceM != nil && post.MatchedPriceM.Sign() > 0 {
		return post.MatchedPriceM
	}
	if ref != nil && ref.Sold {
		return ref.PStarM
	}
	return nil
}
