package world

import (
	"math/big"
	"sort"

	sdk "github.com/cosmos/cosmos-sdk/types"

	"github.com/tendermint/fundraising/x/fundraising/types"
)

// C02 — operations are zero-sum and every participant ends with exactly their due.
type monC02 struct {
	pool0 map[string]*big.Int // community pool at the start of the history
	done  map[uint64]bool     // auctions whose final accounting was checked
}

func coinsMap(cs sdk.Coins) map[string]*big.Int {
	m := map[string]*big.Int{}
	for _, c := range cs {
		m[c.Denom] = c.Amount.BigInt()
	}
	return m
}

func isUser(addr string) bool { return AddrIndex(addr) >= 0 }

func (m *monC02) Step(h *History, st *Step) []Violation {
	var vs []Violation
	pre, post := st.Pre, st.Post
	if m.pool0 == nil {
		m.pool0 = map[string]*big.Int{}
		for d, v := range pre.Pool {
			m.pool0[d] = bcopy(v)
		}
		m.done = map[uint64]bool{}
	}
	if st.Op.Kind == OpSetBalance {
		return nil
	}
	// (a1) nothing is created or destroyed: supply and the sum of all balances are unchanged
	for _, d := range AllDenoms {
		if pre.Supply[d].Cmp(post.Supply[d]) != 0 {
			vs = append(vs, viol("C02/supply-changed", "step #%d (%s): total supply of %s changed %s -> %s", st.Idx, st.Op.Kind, d, pre.Supply[d], post.Supply[d]))
		}
	}
	delta := map[string]map[string]*big.Int{} // addr -> denom -> post-pre
	addrs := map[string]bool{}
	for a := range pre.Bal {
		addrs[a] = true
	}
	for a := range post.Bal {
		addrs[a] = true
	}
	sum := map[string]*big.Int{}
	for a := range addrs {
		ds := map[string]bool{}
		for d := range pre.Bal[a] {
			ds[d] = true
		}
		for d := range post.Bal[a] {
			ds[d] = true
		}
		for d := range ds {
			dl := bsub(post.BalOf(a, d), pre.BalOf(a, d))
			if dl.Sign() != 0 {
				if delta[a] == nil {
					delta[a] = map[string]*big.Int{}
				}
				delta[a][d] = dl
				if sum[d] == nil {
					sum[d] = new(big.Int)
				}
				sum[d].Add(sum[d], dl)
			}
		}
	}
	for d, s := range sum {
		if s.Sign() != 0 {
			vs = append(vs, viol("C02/not-zero-sum", "step #%d (%s): balance changes of %s sum to %s, not zero", st.Idx, st.Op.Kind, d, s))
		}
	}
	dOf := func(a, d string) *big.Int {
		if delta[a] != nil && delta[a][d] != nil {
			return delta[a][d]
		}
		return bigZero
	}
	poolDelta := func(d string) *big.Int { return bsub(post.PoolOf(d), pre.PoolOf(d)) }
	distr := h.W.B.DistrAddr.String()

	switch st.Op.Kind {
	case OpDonate:
		return vs
	case OpAddAllowed, OpUpdateAllowed, OpUpdateParams, OpMsgAddAllowed, OpReimport:
		if len(delta) != 0 {
			vs = append(vs, viol("C02/balances-moved", "step #%d: %s moved coins: %v", st.Idx, st.Op.Kind, delta))
		}
		return vs
	case OpBlock:
		// no coin ever leaves a user's account in block processing
		for a, m := range delta {
			if !isUser(a) {
				continue
			}
			for d, dl := range m {
				if dl.Sign() < 0 {
					vs = append(vs, viol("C02/user-debited-in-block", "step #%d: block at %s took %s%s from %s", st.Idx, tfmt(st.Now), new(big.Int).Neg(dl), d, short(a)))
				}
			}
		}
		for _, d := range AllDenoms {
			if poolDelta(d).Sign() != 0 {
				vs = append(vs, viol("C02/pool-changed-in-block", "step #%d: community pool of %s changed by %s in a block", st.Idx, d, poolDelta(d)))
			}
		}
	default: // messages
		if !st.Res.OK {
			if len(delta) != 0 {
				vs = append(vs, viol("C02/rejected-message-moved-coins", "step #%d: rejected %s moved coins: %v", st.Idx, st.Op.Kind, delta))
			}
			return vs
		}
		signer := st.Op.SignerAddr()
		// expected charge of the signer, from what the operation stored
		want := map[string]*big.Int{}
		fee := map[string]*big.Int{}
		switch st.Op.Kind {
		case OpCreateFixed, OpCreateBatch:
			fee = coinsMap(pre.Params.AuctionCreationFee)
			addTo(want, fee)
			// the auction this message created
			for _, tr := range st.Trans {
				if tr.Pre == nil {
					addTo(want, map[string]*big.Int{tr.Post.SellDenom: tr.Post.SellAmt})
				}
			}
		case OpPlaceBid:
			fee = coinsMap(pre.Params.PlaceBidFee)
			addTo(want, fee)
			a := post.Auction(st.Op.Auction)
			for _, b := range post.BidsOf(st.Op.Auction) {
				if pre.Bid(b.Auction, b.ID) == nil {
					addTo(want, map[string]*big.Int{a.PayDenom: b.Req(a.PayDenom)})
				}
			}
		case OpModifyBid:
			a := post.Auction(st.Op.Auction)
			ob, nb := pre.Bid(st.Op.Auction, st.Op.BidID), post.Bid(st.Op.Auction, st.Op.BidID)
			if a != nil && ob != nil && nb != nil {
				addTo(want, map[string]*big.Int{a.PayDenom: bsub(nb.Req(a.PayDenom), ob.Req(a.PayDenom))})
			}
		case OpCancel:
			// the auctioneer only receives
		}
		for a, m := range delta {
			for d, dl := range m {
				if a == signer {
					continue
				}
				if dl.Sign() < 0 {
					if id, role, ok := EscrowRole(post, a); ok && st.Op.Kind == OpCancel && id == st.Op.Auction && role == "selling" {
						continue
					}
					vs = append(vs, viol("C02/third-party-debited", "step #%d (%s by %s): %s lost %s%s", st.Idx, st.Op.Kind, short(signer), short(a), new(big.Int).Neg(dl), d))
				}
			}
		}
		if st.Op.Kind != OpCancel {
			ds := map[string]bool{}
			for d := range want {
				ds[d] = true
			}
			for d := range delta[signer] {
				ds[d] = true
			}
			for d := range ds {
				w := want[d]
				if w == nil {
					w = bigZero
				}
				if new(big.Int).Neg(dOf(signer, d)).Cmp(w) != 0 {
					vs = append(vs, viol("C02/signer-charge", "step #%d (%s): signer %s was charged %s%s, fee + reservation is %s", st.Idx, st.Op.Kind, short(signer), new(big.Int).Neg(dOf(signer, d)), d, w))
				}
			}
		}
		for _, d := range AllDenoms {
			f := fee[d]
			if f == nil {
				f = bigZero
			}
			if poolDelta(d).Cmp(f) != 0 || dOf(distr, d).Cmp(f) != 0 {
				vs = append(vs, viol("C02/fee-not-in-pool", "step #%d (%s): fee %s%s, community pool grew by %s, distribution account by %s", st.Idx, st.Op.Kind, f, d, poolDelta(d), dOf(distr, d)))
			}
		}
	}
	// (b) final accounting of every auction that just became finished or cancelled
	for _, a := range post.Auctions {
		if m.done[a.ID] {
			continue
		}
		if a.Status == types.AuctionStatusFinished || a.Status == types.AuctionStatusCancelled {
			m.done[a.ID] = true
			vs = append(vs, m.finalAccounting(h, st, a)...)
		}
	}
	return vs
}

func addTo(dst, src map[string]*big.Int) {
	for d, v := range src {
		if v == nil || v.Sign() == 0 {
			continue
		}
		if dst[d] == nil {
			dst[d] = new(big.Int)
		}
		dst[d].Add(dst[d], v)
	}
}

func (m *monC02) finalAccounting(h *History, st *Step, a *Auc) []Violation {
	var vs []Violation
	post := st.Post
	id := a.ID
	// nothing left in escrow (apart from donations that arrived after the sweep)
	for role, addr := range map[string]string{"selling": a.SellingAddr, "paying": a.PayingAddr, "vesting": a.VestingAddr} {
		for _, d := range []string{a.SellDenom, a.PayDenom} {
			if post.BalOf(addr, d).Cmp(h.donated(id, role, d)) != 0 {
				vs = append(vs, viol("C02/stranded-in-escrow", "auction %d is %s but its %s escrow still holds %s%s (third-party donations: %s)", id, a.Status, role, post.BalOf(addr, d), d, h.donated(id, role, d)))
			}
		}
	}
	if a.Status == types.AuctionStatusCancelled {
		h.Label("c02:cancelled")
		got := flowOf(h.OutS, id, a.Auctioneer)
		want := badd(a.SellAmt, st.SweptS[id])
		if got.Cmp(want) != 0 {
			vs = append(vs, viol("C02/cancel-refund", "auction %d cancelled: auctioneer got %s%s back, offered %s + donated %s", id, got, a.SellDenom, a.SellAmt, st.SweptS[id]))
		}
		return vs
	}
	rec := h.Settle[id]
	if rec == nil {
		return vs
	}
	h.Label("c02:finished")
	totalAlloc, totalPay := new(big.Int), new(big.Int)
	totalIn, totalOut := new(big.Int), new(big.Int)
	var bidders []string
	for b := range rec.ReqSum {
		bidders = append(bidders, b)
	}
	sort.Strings(bidders)
	auctioneerBid := false
	refunds := 0
	for _, b := range bidders {
		alloc := rec.Alloc[b]
		if alloc == nil {
			alloc = bigZero
		}
		totalAlloc.Add(totalAlloc, alloc)
		in := flowOf(h.InP, id, b)
		if in.Cmp(rec.ReqSum[b]) != 0 {
			vs = append(vs, viol("C02/reserved-vs-records", "auction %d: %s paid %s%s into escrow over its life but its bids require %s", id, short(b), in, a.PayDenom, rec.ReqSum[b]))
		}
		if b == a.Auctioneer {
			auctioneerBid = true
			continue
		}
		gotS := flowOf(h.OutS, id, b)
		refund := flowOf(h.OutP, id, b)
		pay := bsub(in, refund)
		if refund.Sign() > 0 {
			refunds++
		}
		lo, hi := rec.ReqSum[b], rec.ReqSum[b] // fixed price: everything reserved is the payment
		if rec.Ref == nil {
			if gotS.Cmp(alloc) != 0 {
				vs = append(vs, viol("C02/bidder-allocation", "fixed price auction %d finished: %s received %s%s, its accepted bids add up to %s", id, short(b), gotS, a.SellDenom, alloc))
			}
		} else {
			// batch: the due payment follows from the uniform price used and the coins received (whether
			// the price and the allocation are the right ones is C03's business)
			alloc = gotS
			totalAlloc.Add(totalAlloc, bsub(gotS, zeroIfNil(rec.Alloc[b])))
			if rec.UsedPriceM == nil {
				lo, hi = bigZero, bigZero
				if gotS.Sign() != 0 {
					vs = append(vs, viol("C02/coins-without-price", "batch auction %d finished with no clearing price but %s received %s%s", id, short(b), gotS, a.SellDenom))
				}
			} else {
				lo, hi, _, _, _ = PayBounds(rec.Bids, b, rec.PayDenom, rec.UsedPriceM, gotS)
			}
		}
		if pay.Cmp(lo) < 0 || pay.Cmp(hi) > 0 {
			vs = append(vs, viol("C02/bidder-payment", "auction %d finished: %s reserved %s, got %s back, so paid %s%s; due payment is in [%s,%s] for %s coins", id, short(b), in, refund, pay, a.PayDenom, lo, hi, alloc))
		}
		totalPay.Add(totalPay, pay)
	}
	for acc, v := range h.InP[id] {
		_ = acc
		totalIn.Add(totalIn, v)
	}
	for _, v := range h.OutP[id] {
		totalOut.Add(totalOut, v)
	}
	if totalOut.Cmp(badd(totalIn, rec.SweptP)) != 0 {
		vs = append(vs, viol("C02/paying-coin-conservation", "auction %d finished: %s%s was reserved (+%s donated) but %s left the paying/vesting escrows", id, totalIn, a.PayDenom, rec.SweptP, totalOut))
	}
	if !auctioneerBid {
		gotS := flowOf(h.OutS, id, a.Auctioneer)
		wantS := bsub(badd(a.SellAmt, rec.SweptS), totalAlloc)
		if gotS.Cmp(wantS) != 0 {
			vs = append(vs, viol("C02/auctioneer-unsold", "auction %d finished: auctioneer received %s%s unsold, expected offered %s + donated %s - allocated %s = %s", id, gotS, a.SellDenom, a.SellAmt, rec.SweptS, totalAlloc, wantS))
		}
		gotP := flowOf(h.OutP, id, a.Auctioneer)
		wantP := badd(totalPay, rec.SweptP)
		if gotP.Cmp(wantP) != 0 {
			vs = append(vs, viol("C02/auctioneer-proceeds", "auction %d finished: auctioneer received %s%s, payments %s + donated %s = %s", id, gotP, a.PayDenom, totalPay, rec.SweptP, wantP))
		}
	}
	totalS := new(big.Int)
	for _, v := range h.OutS[id] {
		totalS.Add(totalS, v)
	}
	if totalS.Cmp(badd(a.SellAmt, rec.SweptS)) != 0 {
		vs = append(vs, viol("C02/selling-coin-conservation", "auction %d finished: %s%s left the selling escrow, offered %s + donated %s", id, totalS, a.SellDenom, a.SellAmt, rec.SweptS))
	}
	if len(bidders) >= 2 && refunds >= 1 {
		h.Label("c02:finished-2bidders-with-refund")
	}
	if rec.Ref != nil {
		if a.MaxRounds+1 == uint32(len(a.EndTimes)) {
			h.Label("c02:batch-settled-at-round-limit")
		} else {
			h.Label("c02:batch-settled-before-round-limit")
		}
	} else {
		h.Label("c02:fixed-finished")
	}
	if len(a.Schedules) == 0 {
		h.Label("c02:no-schedule")
	} else if len(a.Schedules) > 1 {
		h.Label("c02:multi-instalment")
	}
	return vs
}

func (m *monC02) Final(h *History) []Violation {
	var vs []Violation
	if len(h.Steps) == 0 || m.pool0 == nil {
		return nil
	}
	last := h.Steps[len(h.Steps)-1].Post
	// the last block that was processed had something due for an auction and left that auction
	// exactly as it was: what its escrows hold is not paid when it is due (and, if nothing else
	// touches the auction, never)
	if !h.Halted {
		for k := len(h.Steps) - 1; k >= 0; k-- {
			st := h.Steps[k]
			if st.Op.Kind != OpBlock || !st.Res.OK {
				continue
			}
			for _, a := range st.Pre.Auctions {
				if dueInBlock(st.Pre, a, st.Now) && st.Pre.AuctionCanon(a.ID) == st.Post.AuctionCanon(a.ID) {
					vs = append(vs, viol("C02/never-settled", "the block at %s left auction %d (%s, start %s, current end %s) untouched although it had something due: the coins in its escrows are not paid out", tfmt(st.Now), a.ID, a.Status, tfmt(a.Start), tfmt(a.LastEnd())))
					break
				}
			}
			break
		}
	}
	for _, d := range AllDenoms {
		grown := bsub(last.PoolOf(d), zeroIfNil(m.pool0[d]))
		fees := zeroIfNil(h.Fees[d])
		if grown.Cmp(fees) != 0 {
			vs = append(vs, viol("C02/fees-vs-pool", "community pool of %s grew by %s over the history but %s of fees were paid", d, grown, fees))
		}
	}
	return vs
}

func zeroIfNil(x *big.Int) *big.Int {
	if x == nil {
		return bigZero
	}
	return x
}

// CfgC02 is the exploration configuration of C02.
func CfgC02() PropCfg {
	w := DefaultWeights()
	w.Block = 26
	w.PoorPct = 30
	w.Donate = 8 // coins sent straight to an escrow must end up with the auctioneer, not stranded
	return PropCfg{ID: "C02", Weights: w, MinOps: 10, MaxOps: 60, DrivePct: 85,
		New: func() Monitor { return &monC02{} },
		NonTrivial: func(h *History) bool {
			return hasLabel(h, "c02:finished-2bidders-with-refund", "c02:cancelled")
		},
		Rule: "Engine K histories with all fee settings (empty, one, two coins, fee in the paying denom) and tight or generous balances, usually driven to the final vesting release. Per op: supply unchanged, all balance deltas sum to zero per denom, only the signer is debited and by exactly fee + reservation (computed from the stored record), the community pool grows by exactly the fee, blocks never debit a user, rejected messages move nothing. When an auction becomes finished/cancelled: escrows empty, bidders received allocation and reservation minus a payment within the reference bounds, auctioneer received unsold coins + all payments (+swept donations). Non-trivial = reaches finished with >=2 bidders of which >=1 is refunded, or cancelled.",
	}
}
