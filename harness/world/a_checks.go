package world

import (
	"fmt"
	"os"
	"strings"
	"testing"

	"pgregory.net/rapid"

	"github.com/tendermint/fundraising/x/fundraising/types"
)

// ---------------------------------------------------------------------------------------------
// C10 at the application boundary: signed MsgAddAllowedBidder transactions.
// ---------------------------------------------------------------------------------------------

// RunC10A delivers generated histories, rich in MsgAddAllowedBidder, as signed transactions.
func RunC10A(t *testing.T) {
	const prop = "C10"
	col := GlobalCollector(prop)
	col.AddRule(CfgC10().Rule)
	w := CfgC10().Weights
	w.PoorPct = 0
	allow := caseLimiter(0)
	body := func(rt *rapid.T, ops []Op) {
		if rt != nil && !allow() {
			return
		}
		labels := map[string]int{}
		if rt != nil {
			h, _ := genLogK(rt, w, 10, 45, 20)
			ops = h.OpsLog()
		}
		a, err := NewAppA()
		if err != nil {
			panic(err)
		}
		a.RunLog(ops)
		fail := func(v Violation) {
			if f, ok := IsKnown(prop, v.Sig); ok {
				col.Known(f)
				return
			}
			WriteReplay(os.Getenv("VERIF_REPLAY_OUT"), Replay{Property: prop, Engine: "A", Signature: v.Sig, Message: v.Msg, Ops: ops})
			col.AddViolation()
			msg := fmt.Sprintf("VIOLATION %s [%s]\n%s\nhistory:\n%s", prop, v.Sig, v.Msg, opsStr(ops))
			if rt != nil {
				rt.Fatalf("%s", msg)
			} else {
				t.Errorf("%s", msg)
			}
		}
		nt := false
		for _, blk := range a.Blocks {
			for i, o := range blk.Txs {
				if o.Kind == OpMsgAddAllowed && i < len(blk.Codes) {
					labels["c10:A-signed-msg-add-allowed"]++
					nt = true
					if blk.Codes[i] == 0 {
						fail(viol("C10/signed-msg-add-allowed-accepted", "a signed MsgAddAllowedBidder transaction was executed with code 0 in a default-linked process: %s", o.String()))
					}
				}
			}
		}
		// every allow-list entry comes from a keeper-API call of the log
		snap := TakeSnap(a.B, a.Ctx())
		legit := map[string]bool{}
		for _, o := range ops {
			if o.Kind == OpAddAllowed {
				legit[fmt.Sprintf("%d/%s", o.Auction, o.BidderAddr())] = true
			}
		}
		for _, ab := range snap.Allowed {
			if !legit[fmt.Sprintf("%d/%s", ab.Auction, ab.Bidder)] {
				fail(viol("C10/allow-list-entry-from-message", "allow-list entry %s exists although no module-level call added it", ab.Canon()))
			}
		}
		for _, b := range snap.Bids {
			if snap.Cap(b.Auction, b.Bidder) == nil {
				fail(viol("C10/stored-bid-without-entry", "stored %s has no allow-list entry", b.Canon()))
			}
		}
		if rt != nil {
			var sample any
			if nt {
				sample = map[string]any{"engine": "A", "ops": opsLines(ops)}
			}
			col.Case(map[string]any{"engine": "A", "ops": ops}, nt, labels, sample)
		}
	}
	if p := os.Getenv("VERIF_REPLAY_FILE"); p != "" {
		r, err := ReadReplay(p)
		if err != nil {
			t.Fatal(err)
		}
		if r.Engine == "A" {
			body(nil, r.Ops)
		}
		return
	}
	rapid.Check(t, func(rt *rapid.T) { body(rt, nil) })
}

func opsLines(ops []Op) []string {
	var out []string
	for _, o := range ops {
		out = append(out, o.String())
	}
	return out
}

func opsStr(ops []Op) string { return "  " + strings.Join(opsLines(ops), "\n  ") + "\n" }

// ---------------------------------------------------------------------------------------------
// C18 at the transaction boundary (differential): a rejected signed transaction leaves all
// module state and all balances unchanged — the same history with every rejected transaction
// removed must produce the same module dump and balances after every block.
// ---------------------------------------------------------------------------------------------

// RunC18A is the application-level part of C18.
func RunC18A(t *testing.T) {
	const prop = "C18"
	col := GlobalCollector(prop)
	col.AddRule("A (transaction boundary, differential/metamorphic): logs generated with the C18 perturbation mix are delivered as signed zero-fee transactions through FinalizeBlock + Commit; the log is then executed again on a fresh application with every transaction that was rejected (code != 0) removed; after every block the complete module dump and every bank balance of the two executions must be identical (only account sequence numbers may differ).")
	w := CfgC18().Weights
	w.PoorPct = 20
	allow := caseLimiter(0)
	body := func(rt *rapid.T, ops []Op) {
		if rt != nil && !allow() {
			return
		}
		labels := map[string]int{}
		if rt != nil {
			h, _ := genLogK(rt, w, 10, 45, 30)
			ops = h.OpsLog()
		}
		a1, err := NewAppA()
		if err != nil {
			panic(err)
		}
		dumps1 := runWithDumps(a1, ops, nil)
		// which message operations were rejected
		rejected := map[int]bool{}
		rejCount, accCount := 0, 0
		idx := 0
		txPos := map[string]int{}
		_ = txPos
		// map delivered txs back to op indices: RunLog delivers message ops in order
		var msgIdx []int
		for i, o := range ops {
			switch o.Kind {
			case OpBlock, OpFaultBlock, OpAddAllowed, OpUpdateAllowed, OpSetBalance, OpReimport:
			case OpUpdateParams:
				if !(o.Signer < 0 && o.SignerStr == "") && txSigner(o) >= 0 {
					msgIdx = append(msgIdx, i)
				}
			default:
				if txSigner(o) >= 0 && (o.Msg(a1.B.GovAddr) != nil || o.Kind == OpDonate) {
					msgIdx = append(msgIdx, i)
				}
			}
		}
		for _, blk := range a1.Blocks {
			for k := range blk.Txs {
				if k >= len(blk.Codes) { // the block itself failed: reported by C07, not here
					idx = -1 << 30
					break
				}
				if idx < len(msgIdx) {
					if blk.Codes[k] != 0 {
						rejected[msgIdx[idx]] = true
						rejCount++
					} else {
						accCount++
					}
				}
				idx++
			}
		}
		labels["c18:A-tx-rejected"] += rejCount
		labels["c18:A-tx-accepted"] += accCount
		if idx != len(msgIdx) {
			// some operation could not be encoded as a transaction; the mapping is unreliable
			labels["c18:A-mapping-skipped"]++
			if rt != nil {
				col.Case(map[string]any{"engine": "A", "ops": ops}, false, labels, nil)
			}
			return
		}
		a2, err := NewAppA()
		if err != nil {
			panic(err)
		}
		dumps2 := runWithDumps(a2, ops, rejected)
		if a1.Failed != "" || a2.Failed != "" {
			labels["c18:A-app-failed"]++
		} else {
			for i := range dumps1 {
				if i >= len(dumps2) || dumps1[i] != dumps2[i] {
					other := ""
					if i < len(dumps2) {
						other = dumps2[i]
					}
					v := viol("C18/rejected-tx-changed-state", "executing the history with its %d rejected transactions and without them gives different module state / balances after block boundary %d:\n%s", rejCount, i, diffLines(dumps1[i], other))
					if f, ok := IsKnown(prop, v.Sig); ok {
						col.Known(f)
						break
					}
					WriteReplay(os.Getenv("VERIF_REPLAY_OUT"), Replay{Property: prop, Engine: "A", Signature: v.Sig, Message: v.Msg, Ops: ops})
					col.AddViolation()
					msg := fmt.Sprintf("VIOLATION %s [%s]\n%s\nhistory:\n%s", prop, v.Sig, v.Msg, opsStr(ops))
					if rt != nil {
						rt.Fatalf("%s", msg)
					} else {
						t.Errorf("%s", msg)
					}
					return
				}
			}
		}
		if rt != nil {
			nt := rejCount >= 2 && accCount >= 1
			var sample any
			if nt {
				sample = map[string]any{"engine": "A", "rejected_transactions": rejCount, "accepted_transactions": accCount, "ops": opsLines(ops)}
			}
			col.Case(map[string]any{"engine": "A", "ops": ops}, nt, labels, sample)
		}
	}
	if p := os.Getenv("VERIF_REPLAY_FILE"); p != "" {
		r, err := ReadReplay(p)
		if err != nil {
			t.Fatal(err)
		}
		if r.Engine == "A" {
			body(nil, r.Ops)
		}
		return
	}
	rapid.Check(t, func(rt *rapid.T) { body(rt, nil) })
}

// runWithDumps executes the log (skipping the operations whose index is in skip) and returns the
// module + balance dump at every block operation and at the end.
func runWithDumps(a *AppA, ops []Op, skip map[int]bool) []string {
	var dumps []string
	dump := func() {
		s := TakeSnap(a.B, a.Ctx())
		dumps = append(dumps, s.ModuleCanon(true)+s.BalancesCanon())
	}
	for i, o := range ops {
		if skip[i] {
			// keep the block structure identical: a ghost entry closes blocks like the transaction
			// it replaces but is never delivered
			o = Op{Kind: "ghost"}
		}
		a.Feed(o)
		if o.Kind == OpBlock || o.Kind == OpFaultBlock {
			dump()
		}
	}
	a.Close()
	dump()
	return dumps
}

// ---------------------------------------------------------------------------------------------
// C08 at the application boundary: the lifecycle must advance through FinalizeBlock, i.e. the
// module's block hook must be wired into the application.
// ---------------------------------------------------------------------------------------------

// RunC08A delivers generated logs through FinalizeBlock; every block operation becomes an empty
// block whose effect on every auction is judged by the predictive lifecycle of monC08.
func RunC08A(t *testing.T) {
	const prop = "C08"
	col := GlobalCollector(prop)
	col.AddRule("A: generated logs delivered through FinalizeBlock + Commit on a fresh application; every block operation is an empty block at its block time and its effect on every auction (waiting -> open, open -> extended | vesting | finished, vesting -> finished, nothing else) must equal the predictive lifecycle — this is what notices a block hook that is not wired into the application; blocks that carry transactions are only checked for legal status edges.")
	w := CfgC08().Weights
	w.PoorPct = 0
	w.PerturbPct = 4
	allow := caseLimiter(0)
	body := func(rt *rapid.T, ops []Op) {
		if rt != nil && !allow() {
			return
		}
		labels := map[string]int{}
		if rt != nil {
			h, _ := genLogK(rt, w, 10, 40, 70)
			ops = h.OpsLog()
		}
		a, err := NewAppA()
		if err != nil {
			panic(err)
		}
		a.EagerBlocks = true
		hist := &History{Labels: labels, Statuses: map[uint64][]types.AuctionStatus{}}
		mon := monC08{}
		nt := false
		prev := TakeSnap(a.B, a.Ctx())
		nblocks := len(a.Blocks)
		fail := func(v Violation) {
			if f, ok := IsKnown(prop, v.Sig); ok {
				col.Known(f)
				return
			}
			WriteReplay(os.Getenv("VERIF_REPLAY_OUT"), Replay{Property: prop, Engine: "A", Signature: v.Sig, Message: v.Msg, Ops: ops})
			col.AddViolation()
			msg := fmt.Sprintf("VIOLATION %s [%s]\n(application level, through FinalizeBlock) %s\nhistory:\n%s", prop, v.Sig, v.Msg, opsStr(ops))
			if rt != nil {
				rt.Fatalf("%s", msg)
			} else {
				t.Errorf("%s", msg)
			}
		}
		a.OnBlock = func(blk BlockA) {
			cur := TakeSnap(a.B, a.Ctx())
			st := &Step{Idx: len(a.Blocks), Op: Op{Kind: OpBlock, Time: blk.Time}, Res: Result{OK: true}, Now: blk.Time, Pre: prev, Post: cur}
			if len(blk.Txs) == 0 {
				for _, v := range mon.Step(hist, st) {
					fail(v)
				}
				labels["c08:A-empty-block-judged"]++
			} else {
				labels["c08:A-block-with-transactions"]++
			}
			prev = cur
		}
		for _, o := range ops {
			a.Feed(o)
			if a.Failed != "" {
				break // a failing block is C07's business
			}
			if o.Kind == OpAddAllowed || o.Kind == OpUpdateAllowed || o.Kind == OpSetBalance || o.Kind == OpReimport || (o.Kind == OpUpdateParams && o.Signer < 0) {
				prev = TakeSnap(a.B, a.Ctx())
			}
		}
		a.Close()
		_ = nblocks
		nt = hasLabel(hist, "c08:block==start", "c08:block==end", "c08:block==release", "c08:settled", "c08:extended")
		if rt != nil {
			var sample any
			if nt {
				sample = map[string]any{"engine": "A", "ops": opsLines(ops)}
			}
			col.Case(map[string]any{"engine": "A", "ops": ops}, nt, labels, sample)
		}
	}
	if p := os.Getenv("VERIF_REPLAY_FILE"); p != "" {
		r, err := ReadReplay(p)
		if err != nil {
			t.Fatal(err)
		}
		if r.Engine == "A" {
			body(nil, r.Ops)
		}
		return
	}
	rapid.Check(t, func(rt *rapid.T) { body(rt, nil) })
}
