package world

import (
	"fmt"
	"os"
	"strconv"
	"strings"
	"sync"
	"testing"

	"pgregory.net/rapid"
)

// PropCfg describes how a history-based (Engine K) property is explored.
type PropCfg struct {
	ID       string
	Weights  Weights
	MinOps   int
	MaxOps   int
	DrivePct int // probability that the history is driven to completion afterwards
	New      func() Monitor
	// NonTrivial decides whether an executed history counts as non-trivial (the stated rule).
	NonTrivial func(h *History) bool
	Rule       string
	// ReportHalt: a failing block hook is a violation of this property (C07 only); every other
	// property just stops exploring that history.
	ReportHalt bool
	// PreOp, when set, runs before an operation is executed (fault enumeration of C07).
	PreOp func(h *History, o Op) []Violation
}

var (
	baseOnce sync.Once
	baseInst *Base
	baseErr  error
)

// SharedBase returns the process-wide application instance.
func SharedBase() *Base {
	baseOnce.Do(func() {
		baseInst, baseErr = NewBase()
		if baseErr == nil {
			InstallFaultRestriction(baseInst)
		}
	})
	if baseErr != nil {
		panic(baseErr)
	}
	return baseInst
}

// Tier returns the VERIF_TIER (quick by default).
func Tier() string {
	if os.Getenv("VERIF_TIER") == "thorough" {
		return "thorough"
	}
	return "quick"
}

func envInt(name string, def int) int {
	if v := os.Getenv(name); v != "" {
		if n, err := strconv.Atoi(v); err == nil {
			return n
		}
	}
	return def
}

// Failure is raised through rapid when an oracle fails.
type Failure struct {
	V Violation
}

// runHistory generates and checks one history.
func runHistory(t *rapid.T, cfg PropCfg, col *Collector) {
	b := SharedBase()
	g := NewGen(cfg.Weights)
	w := NewWorld(b)
	h := NewHistory(w)
	mon := cfg.New()
	fail := func(v Violation) {
		if f, ok := IsKnown(cfg.ID, v.Sig); ok {
			col.Known(f)
			return
		}
		col.mu.Lock()
		col.Violations++
		col.mu.Unlock()
		WriteReplay(os.Getenv("VERIF_REPLAY_OUT"), Replay{Property: cfg.ID, Engine: "K", Signature: v.Sig, Message: v.Msg, Ops: h.OpsLog()})
		t.Fatalf("VIOLATION %s [%s]\n%s\nhistory:\n%s", cfg.ID, v.Sig, v.Msg, h.Describe())
	}
	exec := func(o Op) bool {
		if cfg.Weights.Extreme && excludeOverflow && len(h.Steps) > 0 && overflowGuard(h.Steps[len(h.Steps)-1].Post, o) {
			// known finding F16 (Int overflow in the matching) is excluded by construction
			col.mu.Lock()
			col.Excluded["C07/block-panicked/int-overflow-in-matching"]++
			col.mu.Unlock()
			return true
		}
		o = excludeKnown(o, col)
		if cfg.PreOp != nil && len(h.Steps) > 0 {
			for _, v := range cfg.PreOp(h, o) {
				fail(v)
			}
		}
		st, vs := h.Exec(o, mon)
		for _, v := range vs {
			fail(v)
		}
		if st.Res.FaultHit != "" && st.Op.Kind != OpBlock {
			g.label("history:injected-fault-hit-in-a-message")
		}
		if st.Res.FaultHit != "" && st.Op.Kind == OpBlock {
			g.label("history:injected-fault-hit")
			if st.Res.OK && cfg.ReportHalt {
				fail(viol("C07/fault-hidden", "block %s: the injected failure of transfer %s was not reported, block processing returned nil", tfmt(st.Now), st.Res.FaultHit))
			}
			if !st.Res.OK {
				return false // correctly reported: a real chain stops here
			}
		}
		if st.Op.Kind == OpBlock && !st.Res.OK {
			if cfg.ReportHalt {
				fail(viol(blockFailSig(st.Res), "block processing failed at %s: %s\n%s", tfmt(st.Now), st.Res.Err, firstLines(st.Res.Panic, 30)))
			}
			return false
		}
		return true
	}
	alive := true
	for _, o := range g.Prologue(t) {
		if !exec(o) {
			alive = false
		}
	}
	maxOps := cfg.MaxOps
	if Tier() == "thorough" {
		maxOps *= 2 // longer histories in the thorough tier
	}
	n := rapid.IntRange(cfg.MinOps, maxOps).Draw(t, "n-ops")
	for i := 0; (i < n || g.Busy()) && alive && i < n+400; i++ {
		o := g.Next(t, w, h.Steps[len(h.Steps)-1].Post)
		alive = exec(o)
	}
	if alive && pct(t, cfg.DrivePct, "drive") {
		// drive every auction to its terminal status: blocks just after the last pending instant
		for i := 0; i < 120 && alive; i++ {
			ins := Instants(h.Steps[len(h.Steps)-1].Post, w.Now)
			if len(ins) == 0 {
				break
			}
			alive = exec(Op{Kind: OpBlock, Time: ins[len(ins)-1]})
		}
		g.label("history:driven-to-completion")
	}
	if !alive {
		col.mu.Lock()
		col.Halted++
		col.mu.Unlock()
	}
	for _, v := range mon.Final(h) {
		fail(v)
	}
	labels := map[string]int{}
	for k, v := range g.Labels {
		labels["gen/"+k] = v
	}
	for k, v := range h.Labels {
		labels[k] = v
	}
	nt := cfg.NonTrivial == nil || cfg.NonTrivial(h)
	var sample any
	if nt {
		sample = sampleOf(h)
	}
	col.Case(h.OpsLog(), nt, labels, sample)
}

func sampleOf(h *History) any {
	var lines []string
	for _, s := range h.Steps {
		status := "ok"
		if !s.Res.OK {
			status = "rejected: " + firstLine(s.Res.Err)
		}
		lines = append(lines, s.Op.String()+" => "+status)
	}
	return map[string]any{"history": lines}
}

// RunK is the test body of an Engine K property.
func RunK(t *testing.T, cfg PropCfg) {
	col := GlobalCollector(cfg.ID)
	col.AddRule(cfg.Rule)
	if p := os.Getenv("VERIF_REPLAY_FILE"); p != "" {
		ReplayK(t, cfg, p)
		return
	}
	rapid.Check(t, func(rt *rapid.T) { runHistory(rt, cfg, col) })
}

// ReplayK re-executes a saved history against the monitor, without the generator.
func ReplayK(t *testing.T, cfg PropCfg, path string) {
	r, err := ReadReplay(path)
	if err != nil {
		t.Fatalf("cannot read replay file: %v", err)
	}
	if r.Engine != "K" && r.Engine != "" {
		return // a case of another part of the property
	}
	b := SharedBase()
	w := NewWorld(b)
	h := NewHistory(w)
	mon := cfg.New()
	report := func(v Violation) {
		if f, ok := IsKnown(cfg.ID, v.Sig); ok {
			fmt.Printf("KNOWN-FINDING: property=%s %s [%s]\n", f.Property, f.What, f.Signature)
			return
		}
		t.Errorf("VIOLATION %s [%s]\n%s", cfg.ID, v.Sig, v.Msg)
	}
	for _, o := range r.Ops {
		if cfg.PreOp != nil && len(h.Steps) > 0 {
			for _, v := range cfg.PreOp(h, o) {
				report(v)
			}
		}
		st, vs := h.Exec(o, mon)
		for _, v := range vs {
			report(v)
		}
		if st.Res.FaultHit != "" && st.Op.Kind == OpBlock {
			if st.Res.OK && cfg.ReportHalt {
				report(viol("C07/fault-hidden", "block %s: the injected failure of transfer %s was not reported", tfmt(st.Now), st.Res.FaultHit))
			}
			if !st.Res.OK {
				break
			}
		}
		if st.Op.Kind == OpBlock && !st.Res.OK {
			if cfg.ReportHalt {
				report(viol(blockFailSig(st.Res), "block processing failed at %s: %s", tfmt(st.Now), st.Res.Err))
			}
			break
		}
	}
	for _, v := range mon.Final(h) {
		report(v)
	}
	if t.Failed() {
		fmt.Printf("replay history:\n%s", h.Describe())
	}
}

// hasLabelPrefix reports whether the history carries a label with the prefix.
func hasLabel(h *History, names ...string) bool {
	for _, n := range names {
		for k := range h.Labels {
			if strings.HasPrefix(k, n) {
				return true
			}
		}
	}
	return false
}

var (
	globalColMu sync.Mutex
	globalCol   *Collector
)

// GlobalCollector returns the process-wide collector (one property per process); it is written
// by FlushEvidence from TestMain so that several tests of one property share one shard.
func GlobalCollector(prop string) *Collector {
	globalColMu.Lock()
	defer globalColMu.Unlock()
	if globalCol == nil {
		globalCol = NewCollector(prop)
	}
	return globalCol
}

// AddRule appends a rule text (deduplicated).
func (c *Collector) AddRule(r string) {
	c.mu.Lock()
	defer c.mu.Unlock()
	cur, _ := c.Extra["rule"].(string)
	if strings.Contains(cur, r) {
		return
	}
	if cur != "" {
		cur += " || "
	}
	c.Extra["rule"] = cur + r
}

// FlushEvidence writes the shard of the process-wide collector.
func FlushEvidence() {
	globalColMu.Lock()
	c := globalCol
	globalColMu.Unlock()
	if c != nil {
		c.Write(os.Getenv("VERIF_EVIDENCE_OUT"))
	}
}

func firstLines(s string, n int) string {
	ls := strings.Split(s, "\n")
	if len(ls) > n {
		ls = ls[:n]
	}
	return strings.Join(ls, "\n")
}

// excludeOverflow switches the by-construction exclusion of the decimal-overflow region on. It is
// off since that finding (F16) was repaired in the repository; the guard is kept for reference.
var excludeOverflow = os.Getenv("VERIF_EXCLUDE_OVERFLOW") == "1"

// excludeKnown keeps generated operations out of the regions of the known findings (counted in the
// evidence as excluded_by_construction) so that the search continues behind them.
func excludeKnown(o Op, col *Collector) Op {
	if o.Kind == OpUpdateParams && o.ExtendedPeriod > 90000 {
		// C07 known finding: an extension period that pushes an end time beyond year 9999
		col.mu.Lock()
		col.Excluded["C07/block-failed/end-time-beyond-year-9999"]++
		col.mu.Unlock()
		o.ExtendedPeriod = 90000
	}
	return o
}

// caseLimiter bounds the number of (slow) application-level cases of one test independently of
// -rapid.checks, which is shared by all tests of a property: VERIF_A_LIMIT cases per test, or
// def when unset (0 = unlimited). Cases beyond the limit return immediately and are not counted.
func caseLimiter(def int) func() bool {
	limit := envInt("VERIF_A_LIMIT", def)
	n := 0
	return func() bool {
		if limit <= 0 {
			return true
		}
		n++
		return n <= limit
	}
}
