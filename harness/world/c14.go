package world

import (
	"context"
	"encoding/json"
	"fmt"
	"os"
	"reflect"
	"sort"
	"strings"
	"testing"

	"cosmossdk.io/math"
	sdk "github.com/cosmos/cosmos-sdk/types"
	"pgregory.net/rapid"

	fundraising "github.com/tendermint/fundraising/x/fundraising/module"
	"github.com/tendermint/fundraising/x/fundraising/keeper"
	"github.com/tendermint/fundraising/x/fundraising/types"
)

// C14 — replaying the same history gives identical state, transfers and events. Differential,
// no model: the same operation log is executed R times on fresh applications (Go randomises
// every map iteration, also within one process) and the transcripts are compared.

// genLogK generates an operation log by running the generator against Engine K.
func genLogK(rt *rapid.T, w Weights, minOps, maxOps int, drivePct int) (*History, *Gen) {
	b := SharedBase()
	w.MsgFaultPct = 0 // bank faults are injected at keeper level only; application-level replays would diverge
	g := NewGen(w)
	wd := NewWorld(b)
	h := NewHistory(wd)
	alive := true
	for _, o := range g.Prologue(rt) {
		h.Exec(o)
	}
	// A-level logs start with a block
	st, _ := h.Exec(Op{Kind: OpBlock, Time: T0.Add(2)})
	alive = st.Res.OK
	n := rapid.IntRange(minOps, maxOps).Draw(rt, "n-ops")
	for i := 0; (i < n || g.Busy()) && alive && i < n+400; i++ {
		o := excludeKnown(g.Next(rt, wd, h.Steps[len(h.Steps)-1].Post), GlobalCollector(""))
		st, _ := h.Exec(o)
		if st.Op.Kind == OpBlock && !st.Res.OK {
			alive = false
		}
	}
	if alive && pct(rt, drivePct, "drive") {
		for i := 0; i < 100 && alive; i++ {
			ins := Instants(h.Steps[len(h.Steps)-1].Post, wd.Now)
			if len(ins) == 0 {
				break
			}
			st, _ := h.Exec(Op{Kind: OpBlock, Time: ins[len(ins)-1]})
			alive = st.Res.OK
		}
	}
	return h, g
}

func firstDiff(a, b []string) string {
	for i := range a {
		if i >= len(b) {
			return fmt.Sprintf("second transcript ends at element %d", i)
		}
		if a[i] != b[i] {
			la, lb := strings.Split(a[i], "\n"), strings.Split(b[i], "\n")
			for j := range la {
				if j >= len(lb) || la[j] != lb[j] {
					other := "<missing>"
					if j < len(lb) {
						other = lb[j]
					}
					ctx := ""
					if len(la) > 0 {
						ctx = la[0]
					}
					return fmt.Sprintf("element %d (%s), line %d:\n  run A: %s\n  run B: %s", i, ctx, j, la[j], other)
				}
			}
			return fmt.Sprintf("element %d differs in length", i)
		}
	}
	if len(b) > len(a) {
		return fmt.Sprintf("first transcript ends at element %d", len(a))
	}
	return ""
}

func c14Weights() Weights {
	w := DefaultWeights()
	w.CreateFixed, w.CreateBatch = 10, 12
	w.AddAllowed, w.PlaceBid, w.ModifyBid, w.Block = 24, 50, 6, 6
	w.UpdateAllowed, w.Donate, w.Cancel = 2, 2, 1
	w.PerturbPct, w.PoorPct = 3, 0
	w.MaxAuctions = 3
	return w
}

// RunC14 is the test body of C14 (application level).
func RunC14(t *testing.T) {
	const prop = "C14"
	col := GlobalCollector(prop)
	runs := envInt("VERIF_C14_RUNS", 4)
	col.AddRule(fmt.Sprintf("A: operation logs generated against Engine K (many bidders per auction so that settlements issue several per-bidder transfers and refunds, several auctions settling in one block), then executed %d times on fresh applications with a deterministic genesis (fixed keys, fixed validator) through signed transactions in FinalizeBlock + Commit (the second execution is restarted - a new application object over the same database - after every third block); the ordered FinalizeBlock responses (all events incl. bank coin_spent/coin_received/transfer, tx results), the app hash after every commit and the final module + balance dump must be identical across runs. In the thorough tier the same log is additionally executed in separate processes. Plus: the hook dispatch order produced by the module's app-wiring (InvokeSetHooks) for generated sets of 2-8 hook providers, repeated 6 times, must be the lexical module order every time. Non-trivial = a block issuing >=3 per-bidder transfers (a settlement with >=3 winners/refunds).", runs))
	body := func(rt *rapid.T, ops []Op) {
		var labels map[string]int
		if rt != nil {
			h, g := genLogK(rt, c14Weights(), 25, 80, 95)
			ops = h.OpsLog()
			labels = map[string]int{}
			for k, v := range g.Labels {
				labels["gen/"+k] = v
			}
			for k, v := range h.Labels {
				if strings.HasPrefix(k, "scale:") {
					labels[k] = v
				}
			}
			// classification: per-bidder transfers in one block
			for _, st := range h.Steps {
				if st.Op.Kind != OpBlock {
					continue
				}
				n, settled := 0, 0
				for _, x := range st.Xfers {
					if _, role, ok := EscrowRole(st.Post, x.From); ok && (role == "selling" || role == "paying") && isUser(x.To) {
						n++
					}
				}
				for _, tr := range st.Trans {
					if tr.Settled {
						settled++
						bidders := map[string]bool{}
						for _, b := range st.Pre.BidsOf(tr.ID) {
							bidders[b.Bidder] = true
						}
						if !tr.Pre.IsBatch() {
							labels[fmt.Sprintf("c14:fixed-settlement-bidders=%d", minInt(len(bidders), 3))]++
						} else {
							labels[fmt.Sprintf("c14:batch-settlement-bidders=%d", minInt(len(bidders), 3))]++
						}
						if len(bidders) >= 2 {
							if tr.Pre.IsBatch() {
								labels["c14:batch-settlement-with->=2-bidders"]++
							} else {
								labels["c14:fixed-settlement-with->=2-bidders"]++
							}
						}
					}
				}
				if n >= 3 {
					labels["c14:block-with->=3-per-bidder-transfers"]++
				}
				if settled >= 2 {
					labels["c14:>=2-auctions-settle-in-one-block"]++
				}
			}
		}
		var ref []string
		for r := 0; r < runs; r++ {
			a, err := NewAppA()
			if err != nil {
				panic(err)
			}
			if r == 1 {
				// "regardless of the process that runs it": this execution is restarted (new
				// application object over the same database) after every third block
				a.RestartEvery = 3
			}
			a.RunLog(ops)
			tr := a.Transcript()
			if labels != nil && r == 1 {
				labels["c14:process-restarts"] += a.Restarts
			}
			if r == 0 {
				ref = tr
				if labels != nil {
					for _, blk := range a.Blocks {
						for _, c := range blk.Codes {
							labels["c14:tx-delivered"]++
							if c == 0 {
								labels["c14:tx-accepted"]++
							}
						}
					}
					if a.Failed != "" {
						labels["c14:app-failed"]++
					}
				}
				continue
			}
			if d := firstDiff(ref, tr); d != "" {
				v := viol("C14/transcripts-differ", "run 1 and run %d of the same history differ at %s", r+1, d)
				if f, ok := IsKnown(prop, v.Sig); ok {
					col.Known(f)
					break
				}
				WriteReplay(os.Getenv("VERIF_REPLAY_OUT"), Replay{Property: prop, Engine: "A", Signature: v.Sig, Message: v.Msg, Ops: ops})
				col.mu.Lock()
				col.Violations++
				col.mu.Unlock()
				msg := fmt.Sprintf("VIOLATION %s [%s]\n%s", prop, v.Sig, v.Msg)
				if rt != nil {
					rt.Fatalf("%s", msg)
				} else {
					t.Errorf("%s", msg)
				}
				return
			}
		}
		if rt != nil {
			nt := labels["c14:block-with->=3-per-bidder-transfers"] > 0
			var sample any
			if nt {
				var lines []string
				for _, o := range ops {
					lines = append(lines, o.String())
				}
				sample = map[string]any{"ops": lines, "runs": runs}
			}
			col.Case(ops, nt, labels, sample)
		}
	}
	if p := os.Getenv("VERIF_REPLAY_FILE"); p != "" {
		r, err := ReadReplay(p)
		if err != nil {
			t.Fatal(err)
		}
		if r.Engine != "A" {
			return
		}
		for i := 0; i < 5 && !t.Failed(); i++ {
			body(nil, r.Ops)
		}
		return
	}
	if dump := os.Getenv("VERIF_C14_DUMP_LOG"); dump != "" {
		// child-process mode of the cross-process comparison: execute the log, print the transcript hash
		var ops []Op
		bz, err := os.ReadFile(dump)
		must(err)
		must(json.Unmarshal(bz, &ops))
		a, err := NewAppA()
		must(err)
		a.RunLog(ops)
		fmt.Printf("TRANSCRIPT-HASH %s\n", HashOf(a.Transcript()))
		return
	}
	rapid.Check(t, func(rt *rapid.T) { body(rt, nil) })
}

// ---- hook dispatch order ----------------------------------------------------------------------

type orderHook struct {
	recorder
	name string
	out  *[]string
}

func (o *orderHook) BeforeAllowedBidderUpdated(ctx context.Context, id uint64, bidder sdk.AccAddress, max math.Int) error {
	*o.out = append(*o.out, o.name)
	return nil
}

// invokeSetHooks calls the module's wiring function whichever way it takes the keeper (by pointer
// on the tree as found, by value since the repair of F18), so that the harness builds against both.
func invokeSetHooks(k *keeper.Keeper, m map[string]types.FundraisingHooks) error {
	f := reflect.ValueOf(fundraising.InvokeSetHooks)
	arg := reflect.ValueOf(k)
	if f.Type().In(0).Kind() != reflect.Ptr {
		arg = arg.Elem()
	}
	out := f.Call([]reflect.Value{arg, reflect.ValueOf(m)})
	if e, ok := out[0].Interface().(error); ok && e != nil {
		return e
	}
	return nil
}

// RunC14Hooks checks that the hook dispatch order does not depend on map iteration order.
func RunC14Hooks(t *testing.T) {
	const prop = "C14"
	col := GlobalCollector(prop)
	b := SharedBase()
	names := []string{"alpha", "bank", "dex", "farming", "gov", "liquidity", "mint", "zeta"}
	rapid.Check(t, func(rt *rapid.T) {
		n := 2 + uni(rt, "providers", 7)
		perm := rapid.Permutation(names).Draw(rt, "names")[:n]
		var orders []string
		for rep := 0; rep < 6; rep++ {
			var calls []hookCall
			var out []string
			plan := hookPlan{}
			var veto bool
			k := newHookKeeper(b, 0, &plan, &calls, &veto)
			// newHookKeeper already set (empty) hooks; build a fresh keeper without hooks instead
			kk := newBareKeeper(b)
			m := map[string]types.FundraisingHooks{}
			for _, nm := range perm {
				m[nm] = &orderHook{recorder: recorder{k: k, b: b, calls: &calls, plan: &plan, seen: map[string]int{}, veto: &veto}, name: nm, out: &out}
			}
			if err := invokeSetHooks(kk, m); err != nil {
				rt.Fatalf("InvokeSetHooks: %v", err)
			}
			if err := kk.BeforeAllowedBidderUpdated(b.Branch(), 0, Addrs[0], math.NewInt(1)); err != nil {
				rt.Fatalf("hook: %v", err)
			}
			orders = append(orders, strings.Join(out, ","))
		}
		want := append([]string{}, perm...)
		sort.Strings(want)
		for i, o := range orders {
			if o != strings.Join(want, ",") {
				v := viol("C14/hook-dispatch-order", "hooks of providers %v were dispatched in order [%s] on wiring #%d, expected the lexical order [%s] every time (all orders: %v)", perm, o, i+1, strings.Join(want, ","), orders)
				raw, _ := json.Marshal(perm)
				WriteReplay(os.Getenv("VERIF_REPLAY_OUT"), Replay{Property: prop, Engine: "hook-order", Signature: v.Sig, Message: v.Msg, Case: raw})
				col.mu.Lock()
				col.Violations++
				col.mu.Unlock()
				rt.Fatalf("VIOLATION %s [%s]\n%s", prop, v.Sig, v.Msg)
			}
		}
		col.Case(map[string]any{"providers": perm}, false, map[string]int{"c14:hook-order-cases": 1}, nil)
	})
}
