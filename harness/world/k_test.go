package world

import "testing"

func TestC01(t *testing.T) { RunK(t, CfgC01()) }
