package world

import "testing"

func TestC01(t *testing.T) { RunK(t, CfgC01()) }
func TestC02(t *testing.T) { RunK(t, CfgC02()) }
func TestC03K(t *testing.T) { RunK(t, CfgC03()) }
func TestC04K(t *testing.T) { RunK(t, CfgC04()) }
func TestC05(t *testing.T) { RunK(t, CfgC05()) }
func TestC06(t *testing.T) { RunK(t, CfgC06()) }
func TestC08K(t *testing.T) { RunK(t, CfgC08()) }
func TestC08A(t *testing.T) { RunC08A(t) }
func TestC09K(t *testing.T) { RunK(t, CfgC09()) }
func TestC11(t *testing.T) { RunK(t, CfgC11()) }
func TestC12(t *testing.T) { RunK(t, CfgC12()) }
func TestC13(t *testing.T) { RunK(t, CfgC13()) }
func TestC16(t *testing.T) { RunK(t, CfgC16()) }
func TestC18K(t *testing.T) { RunK(t, CfgC18()) }
func TestC19(t *testing.T) { RunK(t, CfgC19()) }

const ruleBookD = "D: order books of 1-12 directly stored worth/quantity bids over 1-5 bidders, prices from a pool of 1-5 (ties frequent; integers, n/d ratios, 18-digit fractions, 1e-18..1e6), caps from 1 to above supply, supply from 1 to 1e33, forced dust bids at the top price; CalculateBatchAllocation's MatchingInfo vs the big-integer linear-scan reference."

func TestC03D(t *testing.T) { RunBookD(t, "C03", ruleBookD) }
func TestC04D(t *testing.T) { RunBookD(t, "C04", ruleBookD) }
func TestC09D(t *testing.T) {
	RunVestD(t, "D: schedules of 1-100 instalments with constructed weights, proceeds 0 / < n / small / up to 1e33 minted into the paying escrow of a directly stored open auction, ApplyVestingSchedules, then generated block times on / around / skipping release instants through the module's BeginBlock; instalment amounts, sum, release times, payouts per block, released flags and status vs the reference.")
}
func TestC15(t *testing.T) { RunC15(t) }
func TestC17(t *testing.T)  { RunC17(t) }
func TestC17H(t *testing.T) { RunK(t, CfgC17H()) }
func TestC17W(t *testing.T) { RunC17W(t) }
func TestC17D(t *testing.T) { RunC17D(t) }
func TestC14A(t *testing.T)     { RunC14(t) }
func TestC14Hooks(t *testing.T) { RunC14Hooks(t) }
func TestC07K(t *testing.T) { RunK(t, CfgC07()) }
func TestC07A(t *testing.T) { RunC07A(t) }
func TestC18A(t *testing.T) { RunC18A(t) }
