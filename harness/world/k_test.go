package world

import "testing"

func TestC01(t *testing.T) { RunK(t, CfgC01()) }
func TestC02(t *testing.T) { RunK(t, CfgC02()) }
func TestC03K(t *testing.T) { RunK(t, CfgC03()) }
func TestC04K(t *testing.T) { RunK(t, CfgC04()) }
func TestC05(t *testing.T) { RunK(t, CfgC05()) }
func TestC06(t *testing.T) { RunK(t, CfgC06()) }
func TestC08(t *testing.T) { RunK(t, CfgC08()) }
func TestC09K(t *testing.T) { RunK(t, CfgC09()) }
func TestC11(t *testing.T) { RunK(t, CfgC11()) }
func TestC12(t *testing.T) { RunK(t, CfgC12()) }
func TestC13(t *testing.T) { RunK(t, CfgC13()) }
func TestC16(t *testing.T) { RunK(t, CfgC16()) }
func TestC18K(t *testing.T) { RunK(t, CfgC18()) }
func TestC19(t *testing.T) { RunK(t, CfgC19()) }
func TestC10K(t *testing.T) { RunK(t, CfgC10()) }
