package world

import (
	"encoding/json"
	"fmt"
	"sort"
	"strings"
	"time"

	"cosmossdk.io/log"
	"cosmossdk.io/math"
	abci "github.com/cometbft/cometbft/abci/types"
	cmtproto "github.com/cometbft/cometbft/proto/tendermint/types"
	cmttypes "github.com/cometbft/cometbft/types"
	dbm "github.com/cosmos/cosmos-db"
	"github.com/cosmos/cosmos-sdk/baseapp"
	"github.com/cosmos/cosmos-sdk/client"
	"github.com/cosmos/cosmos-sdk/client/flags"
	"github.com/cosmos/cosmos-sdk/client/tx"
	codectypes "github.com/cosmos/cosmos-sdk/codec/types"
	cryptocodec "github.com/cosmos/cosmos-sdk/crypto/codec"
	"github.com/cosmos/cosmos-sdk/crypto/keys/ed25519"
	"github.com/cosmos/cosmos-sdk/server"
	simtestutil "github.com/cosmos/cosmos-sdk/testutil/sims"
	sdk "github.com/cosmos/cosmos-sdk/types"
	"github.com/cosmos/cosmos-sdk/types/tx/signing"
	authsigning "github.com/cosmos/cosmos-sdk/x/auth/signing"
	authtx "github.com/cosmos/cosmos-sdk/x/auth/tx"
	authtypes "github.com/cosmos/cosmos-sdk/x/auth/types"
	banktypes "github.com/cosmos/cosmos-sdk/x/bank/types"
	distrtypes "github.com/cosmos/cosmos-sdk/x/distribution/types"
	stakingtypes "github.com/cosmos/cosmos-sdk/x/staking/types"

	"github.com/tendermint/fundraising/app"
)

// Engine A — ABCI level: a fresh application per execution with a real IAVL app hash,
// deterministic genesis (accounts, validator), messages delivered as signed zero-fee
// transactions in FinalizeBlock followed by Commit.

const chainIDA = "verif-a"

// AppA is one application instance driven through ABCI.
type AppA struct {
	B        *Base
	TxCfg    client.TxConfig
	Height   int64
	Now      time.Time
	seq      map[int]uint64
	accNum   map[int]uint64
	Failed   string // first FinalizeBlock / Commit error
	Blocks   []BlockA
	KeeperOK []bool
	// EagerBlocks: every block operation immediately produces an empty block at its time.
	EagerBlocks bool
	// OnBlock is called after every committed block.
	OnBlock func(BlockA)
	// log interpreter state
	cur     time.Time
	opened  bool
	pending []Op
	// Sched is what the application actually processed, in order: a block operation for every
	// delivered block (several blocks may carry the same time), the transactions of that block, and
	// the keeper-level operations in between.
	Sched []Op
	// SeqMismatch counts transactions rejected for a wrong account sequence / signature.
	SeqMismatch int
	// RestartEvery > 0: after every RestartEvery-th committed block the process is "restarted": a new
	// application object is built over the same database and loads the committed state, so that
	// nothing kept in memory by the old one survives.
	RestartEvery int
	Restarts     int
	db           dbm.DB
	appOpts      simtestutil.AppOptionsMap
}

// BlockA is what one block produced.
type BlockA struct {
	Time    time.Time
	Txs     []Op
	Codes   []uint32
	Logs    []string
	Render  string // canonical rendering of the FinalizeBlock response (events in order)
	AppHash string
	Err     string
}

// NewAppA builds a deterministic application (no faux-merkle store).
func NewAppA() (*AppA, error) {
	db := dbm.NewMemDB()
	appOptions := simtestutil.AppOptionsMap{flags.FlagHome: app.DefaultNodeHome, server.FlagInvCheckPeriod: uint(0)}
	a, err := app.New(log.NewNopLogger(), db, nil, true, appOptions, baseapp.SetChainID(chainIDA))
	if err != nil {
		return nil, err
	}
	cdc := a.AppCodec()
	genesis := a.DefaultGenesis()
	// accounts
	var genAccs []authtypes.GenesisAccount
	var balances []banktypes.Balance
	total := sdk.NewCoins()
	for i := 0; i < len(Addrs); i++ {
		genAccs = append(genAccs, authtypes.NewBaseAccount(Addrs[i], PrivKey(i).PubKey(), uint64(i), 0))
		coins := sdk.Coins{}
		for _, d := range AllDenoms {
			coins = coins.Add(sdk.NewCoin(d, math.NewIntFromBigInt(Generous)))
		}
		balances = append(balances, banktypes.Balance{Address: Addrs[i].String(), Coins: coins})
		total = total.Add(coins...)
	}
	genesis[authtypes.ModuleName] = cdc.MustMarshalJSON(authtypes.NewGenesisState(authtypes.DefaultParams(), genAccs))
	// one deterministic validator
	valKey := ed25519.GenPrivKeyFromSecret([]byte("verif-validator"))
	cmtPub, err := cryptocodec.ToCmtPubKeyInterface(valKey.PubKey())
	if err != nil {
		return nil, err
	}
	val := cmttypes.NewValidator(cmtPub, 1)
	pkAny, _ := codectypes.NewAnyWithValue(valKey.PubKey())
	valAddr := sdk.ValAddress(val.Address).String()
	bond := sdk.DefaultPowerReduction
	validator := stakingtypes.Validator{OperatorAddress: valAddr, ConsensusPubkey: pkAny, Status: stakingtypes.Bonded, Tokens: bond, DelegatorShares: math.LegacyOneDec(),
		UnbondingTime: time.Unix(0, 0).UTC(), Commission: stakingtypes.NewCommission(math.LegacyZeroDec(), math.LegacyZeroDec(), math.LegacyZeroDec()), MinSelfDelegation: math.ZeroInt()}
	delegation := stakingtypes.NewDelegation(Addrs[0].String(), valAddr, math.LegacyOneDec())
	genesis[stakingtypes.ModuleName] = cdc.MustMarshalJSON(stakingtypes.NewGenesisState(stakingtypes.DefaultParams(), []stakingtypes.Validator{validator}, []stakingtypes.Delegation{delegation}))
	balances = append(balances, banktypes.Balance{Address: authtypes.NewModuleAddress(stakingtypes.BondedPoolName).String(), Coins: sdk.Coins{sdk.NewCoin(sdk.DefaultBondDenom, bond)}})
	total = total.Add(sdk.NewCoin(sdk.DefaultBondDenom, bond))
	genesis[banktypes.ModuleName] = cdc.MustMarshalJSON(banktypes.NewGenesisState(banktypes.DefaultGenesisState().Params, balances, total, nil, nil))
	stateBytes, err := json.Marshal(genesis)
	if err != nil {
		return nil, err
	}
	if _, err := a.InitChain(&abci.RequestInitChain{ChainId: chainIDA, AppStateBytes: stateBytes, ConsensusParams: simtestutil.DefaultConsensusParams, Time: T0,
		Validators: []abci.ValidatorUpdate{}}); err != nil {
		return nil, err
	}
	x := &AppA{TxCfg: authtx.NewTxConfig(cdc, authtx.DefaultSignModes), Height: 0, Now: T0, seq: map[int]uint64{}, accNum: map[int]uint64{}, db: db, appOpts: appOptions}
	x.B = &Base{App: a, K: a.FundraisingKeeper, DistrAddr: authtypes.NewModuleAddress(distrtypes.ModuleName), GovAddr: authtypes.NewModuleAddress("gov").String()}
	for i := 0; i < len(Addrs); i++ {
		x.accNum[i] = uint64(i)
	}
	// one empty block so that the genesis state is committed
	x.deliver(T0, nil)
	return x, nil
}

// Restart replaces the application object by a new one built over the same database.
func (x *AppA) Restart() error {
	a, err := app.New(log.NewNopLogger(), x.db, nil, true, x.appOpts, baseapp.SetChainID(chainIDA))
	if err != nil {
		return err
	}
	x.B = &Base{App: a, K: a.FundraisingKeeper, DistrAddr: x.B.DistrAddr, GovAddr: x.B.GovAddr}
	x.Restarts++
	return nil
}

// Ctx returns a context over the committed state (direct writes are committed with the next block).
func (x *AppA) Ctx() sdk.Context {
	return x.B.App.BaseApp.NewUncachedContext(false, cmtproto.Header{ChainID: chainIDA, Height: x.Height, Time: x.Now}).WithEventManager(sdk.NewEventManager())
}

func (x *AppA) signTx(signer int, msg sdk.Msg) ([]byte, error) {
	b := x.TxCfg.NewTxBuilder()
	if err := b.SetMsgs(msg); err != nil {
		return nil, err
	}
	b.SetGasLimit(50_000_000)
	priv := PrivKey(signer)
	seq := x.seq[signer]
	mode := signing.SignMode_SIGN_MODE_DIRECT
	sig := signing.SignatureV2{PubKey: priv.PubKey(), Data: &signing.SingleSignatureData{SignMode: mode}, Sequence: seq}
	if err := b.SetSignatures(sig); err != nil {
		return nil, err
	}
	sd := authsigning.SignerData{Address: Addrs[signer].String(), ChainID: chainIDA, AccountNumber: x.accNum[signer], Sequence: seq, PubKey: priv.PubKey()}
	s2, err := tx.SignWithPrivKey(sdk.Context{}.Context(), mode, sd, b, priv, x.TxCfg, seq)
	if err != nil {
		return nil, err
	}
	if err := b.SetSignatures(s2); err != nil {
		return nil, err
	}
	return x.TxCfg.TxEncoder()(b.GetTx())
}

// txSigner returns the account index that must sign the operation's message (-1: cannot be
// expressed as a signed transaction, e.g. a malformed signer address).
func txSigner(o Op) int {
	if o.SignerStr != "" {
		return AddrIndex(o.SignerStr)
	}
	if o.Signer < 0 || o.Signer >= len(Addrs) {
		return -1
	}
	return o.Signer
}

func renderEvents(sb *strings.Builder, evs []abci.Event) {
	for _, e := range evs {
		sb.WriteString("  ev " + e.Type)
		for _, a := range e.Attributes {
			sb.WriteString(" " + a.Key + "=" + a.Value)
		}
		sb.WriteString("\n")
	}
}

// deliver runs one block with the given message operations as signed transactions.
func (x *AppA) deliver(t time.Time, msgs []Op) BlockA {
	blk := BlockA{Time: t}
	var txs [][]byte
	for _, o := range msgs {
		signer := txSigner(o)
		if signer < 0 {
			continue
		}
		msg := o.Msg(x.B.GovAddr)
		if o.Kind == OpDonate {
			msg = banktypes.NewMsgSend(Addrs[o.Signer], EscrowAddr(o.To, o.Auction), sdk.NewCoins(sdk.NewCoin(o.Denom, math.NewIntFromBigInt(bigOf(o.Amount)))))
		}
		if msg == nil {
			continue
		}
		bz, err := x.signTx(signer, msg)
		if err != nil {
			// not wire-representable (e.g. a nil field): skip, it cannot reach the chain
			continue
		}
		txs = append(txs, bz)
		blk.Txs = append(blk.Txs, o)
		// the ante handler increments the sequence even when the message fails later; a message
		// that fails its stateless validation is rejected before the ante handler runs
		if vb, ok := msg.(sdk.HasValidateBasic); !ok || vb.ValidateBasic() == nil {
			x.seq[signer]++
		}
	}
	x.Height++
	x.Now = t
	x.Sched = append(x.Sched, Op{Kind: OpBlock, Time: t})
	x.Sched = append(x.Sched, blk.Txs...)
	resp, err := func() (r *abci.ResponseFinalizeBlock, err error) {
		defer func() {
			if rec := recover(); rec != nil {
				err = fmt.Errorf("panic: %v", rec)
			}
		}()
		return x.B.App.FinalizeBlock(&abci.RequestFinalizeBlock{Height: x.Height, Time: t, Txs: txs})
	}()
	if err != nil {
		blk.Err = err.Error()
		if x.Failed == "" {
			x.Failed = fmt.Sprintf("FinalizeBlock height %d time %s: %v", x.Height, tfmt(t), err)
		}
		x.Blocks = append(x.Blocks, blk)
		return blk
	}
	var sb strings.Builder
	fmt.Fprintf(&sb, "block h=%d t=%s\n", x.Height, tfmt(t))
	renderEvents(&sb, resp.Events)
	for i, r := range resp.TxResults {
		blk.Codes = append(blk.Codes, r.Code)
		blk.Logs = append(blk.Logs, r.Log)
		fmt.Fprintf(&sb, " tx %d code=%d codespace=%s gas=%d\n", i, r.Code, r.Codespace, r.GasUsed)
		renderEvents(&sb, r.Events)
		if r.Code != 0 {
			// a failed transaction whose signature check failed does not bump the sequence
			if strings.Contains(r.Log, "account sequence mismatch") || strings.Contains(r.Log, "signature verification failed") {
				x.seq[txSigner(blk.Txs[i])]--
				x.SeqMismatch++ // a transaction lost to the harness's own bookkeeping (should stay 0)
			}
		}
	}
	if _, err := x.B.App.Commit(); err != nil {
		blk.Err = err.Error()
		if x.Failed == "" {
			x.Failed = fmt.Sprintf("Commit height %d: %v", x.Height, err)
		}
	}
	// resynchronise with the committed account sequences (whatever the reason a transaction failed)
	for _, o := range blk.Txs {
		if sg := txSigner(o); sg >= 0 {
			if acc := x.B.App.AccountKeeper.GetAccount(x.Ctx(), Addrs[sg]); acc != nil {
				x.seq[sg] = acc.GetSequence()
			}
		}
	}
	blk.AppHash = fmt.Sprintf("%X", resp.AppHash)
	blk.Render = sb.String()
	if x.RestartEvery > 0 && blk.Err == "" && x.Height%int64(x.RestartEvery) == 0 {
		if err := x.Restart(); err != nil && x.Failed == "" {
			x.Failed = fmt.Sprintf("restart after height %d: %v", x.Height, err)
		}
	}
	x.Blocks = append(x.Blocks, blk)
	if x.OnBlock != nil {
		x.OnBlock(blk)
	}
	return blk
}

// Feed processes one operation of a log. Message operations are collected into the transactions
// of the current block; a block operation closes the current block (FinalizeBlock at the current
// block time + Commit) and moves the clock; a keeper-API operation ("other modules": allow-list
// changes, prologue balances, governance parameter changes) first closes the block with the
// transactions collected so far and is then applied directly to the committed state, so that the
// relative order of all operations is preserved (the next block reuses the same block time).
func (x *AppA) Feed(o Op) {
	if x.Failed != "" {
		return
	}
	if x.cur.IsZero() {
		x.cur = T0.Add(1)
	}
	switch o.Kind {
	case OpBlock, OpFaultBlock: // faults are injected at keeper level only
		x.flush()
		x.cur = o.Time
		x.opened = false
		if x.EagerBlocks { // an empty block at the new time right away; transactions follow in later blocks
			x.flush()
		}
	case OpAddAllowed, OpUpdateAllowed, OpSetBalance, OpReimport:
		x.direct(o)
	case OpUpdateParams:
		if o.Signer < 0 && o.SignerStr == "" { // the governance authority cannot sign a transaction
			x.direct(o)
		} else {
			x.pending = append(x.pending, o)
		}
	default:
		x.pending = append(x.pending, o)
	}
}

func (x *AppA) flush() {
	if len(x.pending) > 0 || !x.opened {
		x.deliver(x.cur, x.pending)
		x.pending = nil
		x.opened = true
	}
}

func (x *AppA) direct(o Op) {
	x.flush()
	if x.Failed != "" {
		return
	}
	w := &World{B: x.B, Ctx: x.Ctx(), Now: x.Now, Height: x.Height}
	x.Sched = append(x.Sched, o)
	res := w.Apply(o)
	x.KeeperOK = append(x.KeeperOK, res.OK)
}

// Close delivers the block that is still open.
func (x *AppA) Close() {
	if x.Failed == "" {
		if x.cur.IsZero() {
			x.cur = T0.Add(1)
		}
		x.flush()
	}
}

// RunLog executes a whole operation log.
func (x *AppA) RunLog(ops []Op) {
	for _, o := range ops {
		x.Feed(o)
	}
	x.Close()
}

// Dump renders the module state and all balances of the committed state.
func (x *AppA) Dump() string {
	s := TakeSnap(x.B, x.Ctx())
	return s.ModuleCanon(true) + s.BalancesCanon()
}

// Transcript renders everything observable of the execution: ordered events of every block,
// transaction results, app hashes, final dump.
func (x *AppA) Transcript() []string {
	var out []string
	for _, b := range x.Blocks {
		out = append(out, b.Render+" apphash="+b.AppHash+" err="+b.Err)
	}
	out = append(out, x.Dump())
	return out
}

var _ = sort.Strings
