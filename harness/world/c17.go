package world

import (
	"context"
	"encoding/json"
	"errors"
	"fmt"
	"math/big"
	"os"
	"sort"
	"strings"
	"testing"
	"time"

	"cosmossdk.io/collections"
	"cosmossdk.io/log"
	"cosmossdk.io/math"
	addresscodec "github.com/cosmos/cosmos-sdk/codec/address"
	"github.com/cosmos/cosmos-sdk/runtime"
	sdk "github.com/cosmos/cosmos-sdk/types"
	"pgregory.net/rapid"

	"github.com/tendermint/fundraising/x/fundraising/keeper"
	"github.com/tendermint/fundraising/x/fundraising/types"
)

// C17 — every hook fires once, with the real values, before the change is committed, and any
// listener can veto the operation. Fault enumeration over (hook method, failing position,
// occurrence) x generated scenario parameters.

var hookMethods = []string{
	"BeforeFixedPriceAuctionCreated", "AfterFixedPriceAuctionCreated", "BeforeBatchAuctionCreated", "AfterBatchAuctionCreated",
	"BeforeAuctionCanceled", "BeforeBidPlaced", "BeforeBidModified", "BeforeAllowedBiddersAdded", "BeforeAllowedBidderUpdated", "BeforeSellingCoinsAllocated",
}

type hookCall struct {
	Listener int
	Method   string
	Args     string
	// Obs is what the listener observed in the store at call time (method specific).
	Obs string
}

type hookPlan struct {
	Method     string // "" = no fault
	Position   int
	Occurrence int // fail at the n-th invocation (0-based) of Method on the failing listener
}

type recorder struct {
	idx   int
	k     *keeper.Keeper
	b     *Base
	calls *[]hookCall
	plan  *hookPlan
	seen  map[string]int
	veto  *bool // set when this listener returned its planned error
}

var errVeto = errors.New("verif: listener veto")

func (r *recorder) rec(ctx context.Context, method, args, obs string) error {
	*r.calls = append(*r.calls, hookCall{Listener: r.idx, Method: method, Args: args, Obs: obs})
	n := r.seen[method]
	r.seen[method]++
	if r.plan.Method == method && r.plan.Position == r.idx && r.plan.Occurrence == n {
		*r.veto = true
		return errVeto
	}
	return nil
}

func schedStr(vs []types.VestingSchedule) string {
	var p []string
	for _, s := range vs {
		p = append(p, fmt.Sprintf("%s@%s", s.Weight, tfmt(s.ReleaseTime)))
	}
	return strings.Join(p, ",")
}

func mapStr(m map[string]math.Int) string {
	var ks []string
	for k := range m {
		ks = append(ks, k)
	}
	sort.Strings(ks)
	var p []string
	for _, k := range ks {
		if m[k].IsNil() || m[k].IsZero() {
			continue
		}
		p = append(p, short(k)+"="+m[k].String())
	}
	return strings.Join(p, ",")
}

func (r *recorder) nextAuctionStored(ctx context.Context) string {
	next, _ := r.k.AuctionSeq.Peek(ctx)
	has, _ := r.k.Auction.Has(ctx, next)
	return fmt.Sprintf("auction-with-next-id-stored=%v", has)
}

func (r *recorder) BeforeFixedPriceAuctionCreated(ctx context.Context, auctioneer string, startPrice math.LegacyDec, sellingCoin sdk.Coin, payingCoinDenom string, vs []types.VestingSchedule, start, end time.Time) error {
	// the id has already been taken from the sequence: the record under (next-1) must not exist yet
	next, _ := r.k.AuctionSeq.Peek(ctx)
	has, _ := r.k.Auction.Has(ctx, next-1)
	return r.rec(ctx, "BeforeFixedPriceAuctionCreated", fmt.Sprintf("%s|%s|%s|%s|%s|%s|%s", CanonAddr(auctioneer), startPrice, sellingCoin, payingCoinDenom, schedStr(vs), tfmt(start), tfmt(end)), fmt.Sprintf("stored=%v", has))
}

func (r *recorder) AfterFixedPriceAuctionCreated(ctx context.Context, id uint64, auctioneer string, startPrice math.LegacyDec, sellingCoin sdk.Coin, payingCoinDenom string, vs []types.VestingSchedule, start, end time.Time) error {
	has, _ := r.k.Auction.Has(ctx, id)
	return r.rec(ctx, "AfterFixedPriceAuctionCreated", fmt.Sprintf("%d|%s|%s|%s|%s|%s|%s|%s", id, CanonAddr(auctioneer), startPrice, sellingCoin, payingCoinDenom, schedStr(vs), tfmt(start), tfmt(end)), fmt.Sprintf("stored=%v", has))
}

func (r *recorder) BeforeBatchAuctionCreated(ctx context.Context, auctioneer string, startPrice, minBidPrice math.LegacyDec, sellingCoin sdk.Coin, payingCoinDenom string, vs []types.VestingSchedule, maxRounds uint32, rate math.LegacyDec, start, end time.Time) error {
	next, _ := r.k.AuctionSeq.Peek(ctx)
	has, _ := r.k.Auction.Has(ctx, next-1)
	return r.rec(ctx, "BeforeBatchAuctionCreated", fmt.Sprintf("%s|%s|%s|%s|%s|%s|%d|%s|%s|%s", CanonAddr(auctioneer), startPrice, minBidPrice, sellingCoin, payingCoinDenom, schedStr(vs), maxRounds, rate, tfmt(start), tfmt(end)), fmt.Sprintf("stored=%v", has))
}

func (r *recorder) AfterBatchAuctionCreated(ctx context.Context, id uint64, auctioneer string, startPrice, minBidPrice math.LegacyDec, sellingCoin sdk.Coin, payingCoinDenom string, vs []types.VestingSchedule, maxRounds uint32, rate math.LegacyDec, start, end time.Time) error {
	has, _ := r.k.Auction.Has(ctx, id)
	return r.rec(ctx, "AfterBatchAuctionCreated", fmt.Sprintf("%d|%s|%s|%s|%s|%s|%s|%d|%s|%s|%s", id, CanonAddr(auctioneer), startPrice, minBidPrice, sellingCoin, payingCoinDenom, schedStr(vs), maxRounds, rate, tfmt(start), tfmt(end)), fmt.Sprintf("stored=%v", has))
}

func (r *recorder) BeforeAuctionCanceled(ctx context.Context, id uint64, auctioneer string) error {
	a, err := r.k.Auction.Get(ctx, id)
	obs := "missing"
	if err == nil {
		obs = "status=" + a.GetStatus().String()
	}
	return r.rec(ctx, "BeforeAuctionCanceled", fmt.Sprintf("%d|%s", id, CanonAddr(auctioneer)), obs)
}

func (r *recorder) BeforeBidPlaced(ctx context.Context, auctionID, bidID uint64, bidder string, bidType types.BidType, price math.LegacyDec, coin sdk.Coin) error {
	has, _ := r.k.Bid.Has(ctx, collections.Join(auctionID, bidID))
	return r.rec(ctx, "BeforeBidPlaced", fmt.Sprintf("%d|%d|%s|%d|%s|%s", auctionID, bidID, CanonAddr(bidder), bidType, price, coin), fmt.Sprintf("stored=%v", has))
}

func (r *recorder) BeforeBidModified(ctx context.Context, auctionID, bidID uint64, bidder string, bidType types.BidType, price math.LegacyDec, coin sdk.Coin) error {
	obs := "missing"
	if b, err := r.k.Bid.Get(ctx, collections.Join(auctionID, bidID)); err == nil {
		obs = fmt.Sprintf("stored=%s|%s", b.Price, b.Coin)
	}
	return r.rec(ctx, "BeforeBidModified", fmt.Sprintf("%d|%d|%s|%d|%s|%s", auctionID, bidID, CanonAddr(bidder), bidType, price, coin), obs)
}

func (r *recorder) BeforeAllowedBiddersAdded(ctx context.Context, abs []types.AllowedBidder) error {
	var p, o []string
	for _, ab := range abs {
		p = append(p, fmt.Sprintf("%d/%s/%s", ab.AuctionId, CanonAddr(ab.Bidder), ab.MaxBidAmount))
		addr, _ := sdk.AccAddressFromBech32(ab.Bidder)
		has, _ := r.k.AllowedBidder.Has(ctx, collections.Join(ab.AuctionId, addr))
		o = append(o, fmt.Sprint(has))
	}
	return r.rec(ctx, "BeforeAllowedBiddersAdded", strings.Join(p, ","), "stored="+strings.Join(o, ","))
}

func (r *recorder) BeforeAllowedBidderUpdated(ctx context.Context, id uint64, bidder sdk.AccAddress, max math.Int) error {
	obs := "missing"
	if ab, err := r.k.AllowedBidder.Get(ctx, collections.Join(id, bidder)); err == nil {
		obs = "stored=" + ab.MaxBidAmount.String()
	}
	return r.rec(ctx, "BeforeAllowedBidderUpdated", fmt.Sprintf("%d|%s|%s", id, bidder.String(), max), obs)
}

func (r *recorder) BeforeSellingCoinsAllocated(ctx context.Context, id uint64, alloc, refund map[string]math.Int) error {
	a, err := r.k.Auction.Get(ctx, id)
	obs := "missing"
	if err == nil {
		bal := r.b.App.BankKeeper.GetBalance(ctx, a.GetSellingReserveAddress(), a.GetSellingCoin().Denom)
		obs = fmt.Sprintf("escrow=%s status=%s", bal.Amount, a.GetStatus())
	}
	return r.rec(ctx, "BeforeSellingCoinsAllocated", fmt.Sprintf("%d|alloc:%s|refund:%s", id, mapStr(alloc), mapStr(refund)), obs)
}

// HookCase is one generated C17 case.
type HookCase struct {
	Listeners int      `json:"listeners"`
	Plan      hookPlan `json:"plan"`
	MaxRounds uint32   `json:"max_rounds"`
	FixPrice  string   `json:"fixed_price"`
	MinPrice  string   `json:"min_price"`
	Supply    string   `json:"supply"`
	BidAmts   []string `json:"bid_amounts"`
	Prices    []string `json:"prices"`
	Scheds    int      `json:"schedules"`
}

func newHookKeeper(b *Base, n int, plan *hookPlan, calls *[]hookCall, veto *bool) *keeper.Keeper {
	k := keeper.NewKeeper(b.App.AppCodec(), addresscodec.NewBech32Codec("cosmos"), runtime.NewKVStoreService(b.App.GetKey(types.StoreKey)), log.NewNopLogger(),
		b.GovAddr, b.App.AccountKeeper, b.App.BankKeeper, b.App.DistrKeeper)
	var ls []types.FundraisingHooks
	for i := 0; i < n; i++ {
		ls = append(ls, &recorder{idx: i, k: &k, b: b, calls: calls, plan: plan, seen: map[string]int{}, veto: veto})
	}
	k.SetHooks(types.NewMultiFundraisingHooks(ls...))
	return &k
}

type hookOp struct {
	name    string
	method  []string // hooks expected, in order, on success
	isMsg   bool
	run     func(ctx sdk.Context) error
	args    func(pre, post *Snap) []string // expected Args per expected hook
	obs     func(pre, post *Snap) []string // expected Obs per expected hook
	isBlock bool
}

func runHookCase(b *Base, c HookCase) (labels map[string]int, vs []Violation) {
	labels = map[string]int{}
	var calls []hookCall
	plan := c.Plan
	var vetoIssued bool
	k := newHookKeeper(b, c.Listeners, &plan, &calls, &vetoIssued)
	ms := keeper.NewMsgServerImpl(*k)
	ctx := b.Branch().WithBlockTime(T0)
	must(k.Params.Set(ctx, types.Params{AuctionCreationFee: sdk.Coins{}, PlaceBidFee: sdk.Coins{}, ExtendedPeriod: 1}))
	now := T0
	end0 := T0.Add(2 * time.Hour)
	var sched []types.VestingSchedule
	if c.Scheds > 0 {
		ws := []string{"1"}
		if c.Scheds == 2 {
			ws = []string{"0.333333333333333333", "0.666666666666666667"}
		}
		for i, w := range ws {
			sched = append(sched, types.VestingSchedule{ReleaseTime: end0.Add(time.Duration(i+1) * 100 * time.Hour), Weight: dec(w)})
		}
	}
	supply := bigOf(c.Supply)
	fixP, minP := dec(c.FixPrice), dec(c.MinPrice)
	amt := func(i int) math.Int { return IntFromB(bigOf(c.BidAmts[i%len(c.BidAmts)])) }
	price := func(i int) math.LegacyDec {
		p := dec(c.Prices[i%len(c.Prices)])
		if p.LT(minP) {
			p = minP
		}
		return p
	}
	a := func(i int) string { return Addrs[i].String() }
	sellCoin := sdk.NewCoin("sella", IntFromB(supply))
	msgFixed := &types.MsgCreateFixedPriceAuction{Auctioneer: a(0), StartPrice: fixP, SellingCoin: sellCoin, PayingCoinDenom: "paya", VestingSchedules: sched, StartTime: T0, EndTime: end0}
	msgBatch := &types.MsgCreateBatchAuction{Auctioneer: a(1), StartPrice: minP, MinBidPrice: minP, SellingCoin: sellCoin, PayingCoinDenom: "paya", VestingSchedules: sched, MaxExtendedRound: c.MaxRounds, ExtendedRoundRate: dec("0.5"), StartTime: T0, EndTime: end0}
	msgLater := &types.MsgCreateFixedPriceAuction{Auctioneer: a(2), StartPrice: fixP, SellingCoin: sellCoin, PayingCoinDenom: "payb", StartTime: T0.Add(time.Hour), EndTime: end0}
	msgEmpty := &types.MsgCreateBatchAuction{Auctioneer: a(2), StartPrice: minP, MinBidPrice: minP, SellingCoin: sellCoin, PayingCoinDenom: "payb", VestingSchedules: sched, MaxExtendedRound: 0, ExtendedRoundRate: dec("0.5"), StartTime: T0, EndTime: end0}
	capOf := func(x math.Int) math.Int {
		if x.GT(IntFromB(supply)) {
			return IntFromB(supply)
		}
		return x
	}
	qtyFixed := amt(0)
	if lim := IntFromB(supply).SubRaw(1); qtyFixed.GT(lim) {
		qtyFixed = lim
	}
	// second fixed-price bid: one coin, paying-denominated when that converts to exactly one
	fixCoin2 := sdk.NewCoin("sella", math.NewInt(1))
	if DecM(fixP).Cmp(E18) >= 0 {
		fixCoin2 = sdk.NewCoin("paya", IntFromB(MulCeil(bi(1), DecM(fixP))))
	}
	worthOf := func(q math.Int, p math.LegacyDec) math.Int { return IntFromB(MulCeil(IntB(q), DecM(p))) }
	// a worth bid at a price >= 1 converts back to exactly the intended quantity
	worthPrice := price(0)
	if worthPrice.LT(math.LegacyOneDec()) {
		worthPrice = worthPrice.Add(math.LegacyOneDec())
	}
	fixedArgs := func(m *types.MsgCreateFixedPriceAuction) string {
		return fmt.Sprintf("%s|%s|%s|%s|%s|%s|%s", m.Auctioneer, m.StartPrice, m.SellingCoin, m.PayingCoinDenom, schedStr(m.VestingSchedules), tfmt(m.StartTime), tfmt(m.EndTime))
	}
	batchArgs := func(m *types.MsgCreateBatchAuction) string {
		return fmt.Sprintf("%s|%s|%s|%s|%s|%s|%d|%s|%s|%s", m.Auctioneer, m.StartPrice, m.MinBidPrice, m.SellingCoin, m.PayingCoinDenom, schedStr(m.VestingSchedules), m.MaxExtendedRound, m.ExtendedRoundRate, tfmt(m.StartTime), tfmt(m.EndTime))
	}
	abList := func(id uint64, accs ...int) []types.AllowedBidder {
		var l []types.AllowedBidder
		for _, x := range accs {
			l = append(l, types.AllowedBidder{AuctionId: id, Bidder: a(x), MaxBidAmount: IntFromB(supply)})
		}
		return l
	}
	abArgs := func(l []types.AllowedBidder) string {
		var p []string
		for _, ab := range l {
			p = append(p, fmt.Sprintf("%d/%s/%s", ab.AuctionId, ab.Bidder, ab.MaxBidAmount))
		}
		return strings.Join(p, ",")
	}
	placeBid := func(m *types.MsgPlaceBid) hookOp {
		return hookOp{name: fmt.Sprintf("placeBid(a=%d,type=%d)", m.AuctionId, m.BidType), method: []string{"BeforeBidPlaced"}, isMsg: true,
			run: func(ctx sdk.Context) error {
				if err := m.ValidateBasic(); err != nil {
					return err
				}
				_, err := ms.PlaceBid(ctx, m)
				return err
			},
			args: func(pre, post *Snap) []string {
				id := pre.BidSeq[m.AuctionId] + 1
				return []string{fmt.Sprintf("%d|%d|%s|%d|%s|%s", m.AuctionId, id, m.Bidder, m.BidType, m.Price, m.Coin)}
			},
			obs: func(pre, post *Snap) []string { return []string{"stored=false"} }}
	}
	newCap := IntFromB(supply).AddRaw(5)
	modPrice := price(1).Add(dec("0.000000000000000001"))
	ops := []hookOp{
		{name: "createFixed", method: []string{"BeforeFixedPriceAuctionCreated", "AfterFixedPriceAuctionCreated"}, isMsg: true,
			run: func(ctx sdk.Context) error {
				if err := msgFixed.ValidateBasic(); err != nil {
					return err
				}
				_, err := ms.CreateFixedPriceAuction(ctx, msgFixed)
				return err
			},
			args: func(pre, post *Snap) []string { return []string{fixedArgs(msgFixed), "0|" + fixedArgs(msgFixed)} },
			obs:  func(pre, post *Snap) []string { return []string{"stored=false", "stored=true"} }},
		{name: "createBatch", method: []string{"BeforeBatchAuctionCreated", "AfterBatchAuctionCreated"}, isMsg: true,
			run: func(ctx sdk.Context) error {
				if err := msgBatch.ValidateBasic(); err != nil {
					return err
				}
				_, err := ms.CreateBatchAuction(ctx, msgBatch)
				return err
			},
			args: func(pre, post *Snap) []string { return []string{batchArgs(msgBatch), "1|" + batchArgs(msgBatch)} },
			obs:  func(pre, post *Snap) []string { return []string{"stored=false", "stored=true"} }},
		{name: "createFixed(waiting)", method: []string{"BeforeFixedPriceAuctionCreated", "AfterFixedPriceAuctionCreated"}, isMsg: true,
			run: func(ctx sdk.Context) error {
				if err := msgLater.ValidateBasic(); err != nil {
					return err
				}
				_, err := ms.CreateFixedPriceAuction(ctx, msgLater)
				return err
			},
			args: func(pre, post *Snap) []string { return []string{fixedArgs(msgLater), "2|" + fixedArgs(msgLater)} },
			obs:  func(pre, post *Snap) []string { return []string{"stored=false", "stored=true"} }},
		{name: "createBatch(no bids)", method: []string{"BeforeBatchAuctionCreated", "AfterBatchAuctionCreated"}, isMsg: true,
			run: func(ctx sdk.Context) error {
				if err := msgEmpty.ValidateBasic(); err != nil {
					return err
				}
				_, err := ms.CreateBatchAuction(ctx, msgEmpty)
				return err
			},
			args: func(pre, post *Snap) []string { return []string{batchArgs(msgEmpty), "3|" + batchArgs(msgEmpty)} },
			obs:  func(pre, post *Snap) []string { return []string{"stored=false", "stored=true"} }},
		{name: "addAllowed(a=0)", method: []string{"BeforeAllowedBiddersAdded"},
			run:  func(ctx sdk.Context) error { return k.AddAllowedBidders(ctx, 0, abList(0, 3, 4)) },
			args: func(pre, post *Snap) []string { return []string{abArgs(abList(0, 3, 4))} },
			obs:  func(pre, post *Snap) []string { return []string{"stored=false,false"} }},
		{name: "addAllowed(a=1)", method: []string{"BeforeAllowedBiddersAdded"},
			run:  func(ctx sdk.Context) error { return k.AddAllowedBidders(ctx, 1, abList(1, 3, 4, 5)) },
			args: func(pre, post *Snap) []string { return []string{abArgs(abList(1, 3, 4, 5))} },
			obs:  func(pre, post *Snap) []string { return []string{"stored=false,false,false"} }},
		{name: "updateAllowed(a=1)", method: []string{"BeforeAllowedBidderUpdated"},
			run:  func(ctx sdk.Context) error { return k.UpdateAllowedBidder(ctx, 1, Addrs[3], newCap) },
			args: func(pre, post *Snap) []string { return []string{fmt.Sprintf("1|%s|%s", a(3), newCap)} },
			obs:  func(pre, post *Snap) []string { return []string{"stored=" + supply.String()} }},
		placeBid(&types.MsgPlaceBid{AuctionId: 0, Bidder: a(3), BidType: types.BidTypeFixedPrice, Price: fixP, Coin: sdk.NewCoin("sella", qtyFixed)}),
		placeBid(&types.MsgPlaceBid{AuctionId: 0, Bidder: a(4), BidType: types.BidTypeFixedPrice, Price: fixP, Coin: fixCoin2}),
		placeBid(&types.MsgPlaceBid{AuctionId: 1, Bidder: a(3), BidType: types.BidTypeBatchWorth, Price: worthPrice, Coin: sdk.NewCoin("paya", worthOf(capOf(amt(1)), worthPrice))}),
		placeBid(&types.MsgPlaceBid{AuctionId: 1, Bidder: a(4), BidType: types.BidTypeBatchMany, Price: price(1), Coin: sdk.NewCoin("sella", capOf(amt(2)))}),
		placeBid(&types.MsgPlaceBid{AuctionId: 1, Bidder: a(5), BidType: types.BidTypeBatchMany, Price: price(2), Coin: sdk.NewCoin("sella", capOf(amt(3)))}),
		{name: "modifyBid(a=1,bid=2)", method: []string{"BeforeBidModified"}, isMsg: true,
			run: func(ctx sdk.Context) error {
				m := &types.MsgModifyBid{AuctionId: 1, Bidder: a(4), BidId: 2, Price: modPrice, Coin: sdk.NewCoin("sella", capOf(amt(2)))}
				if err := m.ValidateBasic(); err != nil {
					return err
				}
				_, err := ms.ModifyBid(ctx, m)
				return err
			},
			args: func(pre, post *Snap) []string {
				return []string{fmt.Sprintf("1|2|%s|%d|%s|%s", a(4), types.BidTypeBatchMany, modPrice, sdk.NewCoin("sella", capOf(amt(2))))}
			},
			obs: func(pre, post *Snap) []string {
				return []string{fmt.Sprintf("stored=%s|%s", price(1), sdk.NewCoin("sella", capOf(amt(2))))}
			}},
		{name: "cancel(a=2)", method: []string{"BeforeAuctionCanceled"}, isMsg: true,
			run: func(ctx sdk.Context) error {
				m := &types.MsgCancelAuction{Auctioneer: a(2), AuctionId: 2}
				if err := m.ValidateBasic(); err != nil {
					return err
				}
				_, err := ms.CancelAuction(ctx, m)
				return err
			},
			args: func(pre, post *Snap) []string { return []string{"2|" + a(2)} },
			obs:  func(pre, post *Snap) []string { return []string{"status=" + types.AuctionStatusStandBy.String()} }},
	}
	// blocks: the first end time settles the fixed price auction and evaluates the batch one
	var lastXfers []Xfer
	settleArgs := func(pre, post *Snap, st *settleObs) []string {
		var out []string
		for _, id := range st.ids {
			au := pre.Auction(id)
			alloc, refund := map[string]math.Int{}, map[string]math.Int{}
			isBidder := map[string]bool{}
			for _, bd := range pre.BidsOf(id) {
				isBidder[bd.Bidder] = true
			}
			for _, x := range lastXfers {
				if !isBidder[x.To] {
					continue
				}
				if x.From == au.SellingAddr && x.Denom == au.SellDenom {
					alloc[x.To] = IntFromB(badd(IntB(zeroInt(alloc[x.To])), x.Amt))
				}
				if x.From == au.PayingAddr && x.Denom == au.PayDenom && au.IsBatch() {
					refund[x.To] = IntFromB(badd(IntB(zeroInt(refund[x.To])), x.Amt))
				}
			}
			out = append(out, fmt.Sprintf("%d|alloc:%s|refund:%s", id, mapStr(alloc), mapStr(refund)))
		}
		return out
	}
	nBlocks := int(c.MaxRounds) + 1
	for i := 0; i < nBlocks; i++ {
		bt := end0.Add(time.Duration(i) * 24 * time.Hour)
		so := &settleObs{}
		ops = append(ops, hookOp{name: fmt.Sprintf("block(%s)", tfmt(bt)), isBlock: true,
			run: func(ctx sdk.Context) error { return k.BeginBlocker(ctx.WithBlockTime(bt)) },
			args: func(pre, post *Snap) []string {
				so.ids = nil
				for _, au := range pre.Auctions {
					pa := post.Auction(au.ID)
					if au.Status == types.AuctionStatusStarted && pa.Status != types.AuctionStatusStarted {
						so.ids = append(so.ids, au.ID)
					}
				}
				return settleArgs(pre, post, so)
			},
			obs: func(pre, post *Snap) []string {
				var out []string
				for _, id := range so.ids {
					au := pre.Auction(id)
					out = append(out, fmt.Sprintf("escrow=%s status=%s", pre.BalOf(au.SellingAddr, au.SellDenom), types.AuctionStatusStarted))
				}
				return out
			}})
	}
	_ = now
	for _, op := range ops {
		pre := TakeSnap(b, ctx)
		calls = calls[:0]
		vetoIssued = false
		cc, write := ctx.CacheContext()
		em := sdk.NewEventManager()
		cc = cc.WithEventManager(em)
		var err error
		func() {
			defer func() {
				if r := recover(); r != nil {
					err = fmt.Errorf("panic: %v", r)
				}
			}()
			err = op.run(cc)
		}()
		lastXfers = ParseXfers(em.Events())
		vetoed := err != nil && errors.Is(err, errVeto)
		planned := false
		if err == nil {
			write()
		}
		var post *Snap
		if err == nil {
			post = TakeSnap(b, ctx)
		} else {
			post = TakeSnap(b, cc)
		}
		if vetoed {
			planned = true
		}
		if !planned && err != nil {
			// the veto may have been swallowed or the operation failed for another reason
			if plan.Method != "" && vetoIssued {
				vs = append(vs, viol("C17/veto-error-replaced", "%s: listener %d vetoed %s but the operation returned a different error: %v", op.name, plan.Position, plan.Method, err))
				return labels, vs
			}
			// the operation failed for a reason unrelated to the listeners (another property's business):
			// the case cannot be judged, it is counted and skipped
			labels["c17:scenario-op-failed-unrelated-to-hooks"]++
			return labels, vs
		}
		if planned {
			labels["c17:veto/"+plan.Method]++
			labels[fmt.Sprintf("c17:veto-position-%d-of-%d", plan.Position, c.Listeners)]++
			// listeners before the failing one were called, later ones were not, for that invocation
			for _, cl := range calls {
				if cl.Method == plan.Method && cl.Listener > plan.Position && countCalls(calls, plan.Method, cl.Listener) > countCalls(calls, plan.Method, plan.Position)-1 {
					vs = append(vs, viol("C17/listener-called-after-veto", "%s: listener %d was called with %s after listener %d vetoed", op.name, cl.Listener, cl.Method, plan.Position))
				}
			}
			// the operation must fail and leave nothing committed (the caller discards the branch)
			after := TakeSnap(b, ctx)
			if after.ModuleCanon(true) != pre.ModuleCanon(true) || after.BalancesCanon() != pre.BalancesCanon() {
				vs = append(vs, viol("C17/veto-not-effective", "%s vetoed by listener %d but state changed", op.name, plan.Position))
			}
			return labels, vs
		}
		if plan.Method != "" && vetoIssued {
			// a listener returned an error but the operation succeeded
			vs = append(vs, viol("C17/veto-swallowed/"+plan.Method, "%s: listener %d of %d returned an error from %s but the operation succeeded and its effects were committed", op.name, plan.Position, c.Listeners, plan.Method))
			return labels, vs
		}
		// success: each listener exactly once per expected hook, in registration order, with the real values
		wantArgs := op.args(pre, post)
		wantObs := op.obs(pre, post)
		methods := op.method
		if op.isBlock {
			methods = nil
			for range wantArgs {
				methods = append(methods, "BeforeSellingCoinsAllocated")
			}
		}
		var want []hookCall
		for hi, m := range methods {
			for l := 0; l < c.Listeners; l++ {
				want = append(want, hookCall{Listener: l, Method: m, Args: wantArgs[hi], Obs: wantObs[hi]})
			}
		}
		if len(calls) != len(want) {
			vs = append(vs, viol("C17/call-count", "%s: %d hook calls recorded, expected %d (%v listeners x %v)\n got: %v", op.name, len(calls), len(want), c.Listeners, methods, calls))
			return labels, vs
		}
		for i := range want {
			g := calls[i]
			if g.Listener != want[i].Listener || g.Method != want[i].Method {
				vs = append(vs, viol("C17/call-order", "%s: call %d is listener %d %s, expected listener %d %s", op.name, i, g.Listener, g.Method, want[i].Listener, want[i].Method))
				return labels, vs
			}
			if g.Args != want[i].Args {
				vs = append(vs, viol("C17/call-values/"+g.Method, "%s: listener %d got %s(%s), the operation used (%s)", op.name, g.Listener, g.Method, g.Args, want[i].Args))
				return labels, vs
			}
			if g.Obs != want[i].Obs {
				vs = append(vs, viol("C17/call-timing/"+g.Method, "%s: when %s was called listener %d observed [%s], expected [%s] (the announced change must not be committed yet for Before*, and be stored for After*)", op.name, g.Method, g.Listener, g.Obs, want[i].Obs))
				return labels, vs
			}
		}
		for _, m := range methods {
			labels["c17:fired/"+m]++
		}
		if op.isBlock && len(wantArgs) > 0 {
			for _, id := range []uint64{0, 1} {
				if pa := post.Auction(id); pa != nil && pre.Auction(id).Status == types.AuctionStatusStarted && pa.Status != types.AuctionStatusStarted {
					if id == 1 {
						if c.MaxRounds+1 == uint32(len(pa.EndTimes)) {
							labels["c17:batch-settled-at-round-limit"]++
						} else {
							labels["c17:batch-settled-by-rate"]++
						}
					} else {
						labels["c17:fixed-settled"]++
					}
				}
			}
		}
	}
	if plan.Method != "" {
		labels["c17:planned-veto-never-reached"]++
	}
	return labels, vs
}

type settleObs struct{ ids []uint64 }

func zeroInt(i math.Int) math.Int {
	if i.IsNil() {
		return math.ZeroInt()
	}
	return i
}

func countCalls(calls []hookCall, method string, listener int) int {
	n := 0
	for _, c := range calls {
		if c.Method == method && c.Listener == listener {
			n++
		}
	}
	return n
}

func genHookCase(t *rapid.T, g *Gen) HookCase {
	c := HookCase{Listeners: 1 + uni(t, "listeners", 4)}
	if !pct(t, 25, "no-fault") {
		c.Plan.Method = hookMethods[uni(t, "fault-method", len(hookMethods))]
		c.Plan.Position = uni(t, "fault-position", c.Listeners)
		c.Plan.Occurrence = uni(t, "fault-occurrence", 3)
		switch c.Plan.Method {
		case "BeforeAuctionCanceled", "BeforeBidModified", "BeforeAllowedBidderUpdated":
			c.Plan.Occurrence = 0
		case "BeforeBatchAuctionCreated", "AfterBatchAuctionCreated", "BeforeFixedPriceAuctionCreated", "AfterFixedPriceAuctionCreated", "BeforeAllowedBiddersAdded":
			c.Plan.Occurrence %= 2
		}
	}
	c.MaxRounds = uint32(pick(t, "hook-rounds", []int{0, 2}))
	c.FixPrice = mstr(g.drawPriceM(t, "hook-fix-price"))
	c.MinPrice = mstr(g.drawPriceM(t, "hook-min-price"))
	supply := g.drawAmount(t, "hook-supply")
	if supply.Cmp(bi(10)) < 0 {
		supply = bi(10)
	}
	c.Supply = supply.String()
	for i := 0; i < 4; i++ {
		a := g.drawAmount(t, fmt.Sprintf("hook-amt-%d", i))
		c.BidAmts = append(c.BidAmts, a.String())
		c.Prices = append(c.Prices, mstr(g.drawPriceM(t, fmt.Sprintf("hook-price-%d", i))))
	}
	c.Scheds = uni(t, "hook-scheds", 3)
	return c
}

// RunC17 is the test body of C17.
func RunC17(t *testing.T) {
	const prop = "C17"
	col := GlobalCollector(prop)
	col.AddRule("Fault enumeration: listener count L in 1..4, failing hook method in the 10 methods of the hook interface (or none), failing position in 0..L-1, failing occurrence 0..2, crossed with generated scenario parameters (prices incl. non-terminating, amounts, supply, 0-2 instalments, max rounds 0 or 2 so that both batch settlement branches are reached). The scenario performs every operation that offers a hook (both create messages, add/update allowed bidder through the keeper API, three bid types, modify bid, cancel, fixed-price settlement, batch settlement at the round limit and by the rate rule) on a keeper built with instrumented listeners. No fault: each listener is called exactly once per successful operation, in registration order, with values equal to what the operation stored / transferred (settlement maps vs per-bidder balance deltas), and observes the store before the announced change (Before*) or after it (After*). With a failing listener: later listeners are not called, a message or keeper call returns the listener's error with nothing committed, a settlement makes block processing return the error. Non-trivial = a case with an injected listener failure that was reached; distinct = distinct (L, method, position, occurrence, parameters).")
	b := SharedBase()
	if p := os.Getenv("VERIF_REPLAY_FILE"); p != "" {
		r, err := ReadReplay(p)
		if err != nil {
			t.Fatal(err)
		}
		if r.Engine != "hooks" {
			return // a case of another part of the property
		}
		var c HookCase
		must(json.Unmarshal(r.Case, &c))
		_, vs := runHookCase(b, c)
		for _, v := range vs {
			t.Errorf("VIOLATION %s [%s]\n%s", prop, v.Sig, v.Msg)
		}
		return
	}
	rapid.Check(t, func(rt *rapid.T) {
		g := NewGen(DefaultWeights())
		c := genHookCase(rt, g)
		labels, vs := runHookCase(b, c)
		for _, v := range vs {
			if f, ok := IsKnown(prop, v.Sig); ok {
				col.Known(f)
				continue
			}
			raw, _ := json.Marshal(c)
			WriteReplay(os.Getenv("VERIF_REPLAY_OUT"), Replay{Property: prop, Engine: "hooks", Signature: v.Sig, Message: v.Msg, Case: raw})
			col.mu.Lock()
			col.Violations++
			col.mu.Unlock()
			rt.Fatalf("VIOLATION %s [%s]\n%s\ncase: %s", prop, v.Sig, v.Msg, raw)
		}
		nt := false
		for k := range labels {
			if strings.HasPrefix(k, "c17:veto/") {
				nt = true
			}
		}
		col.Case(c, nt, labels, map[string]any{"hook_case": c})
	})
}

var _ = big.NewInt

// newBareKeeper builds a keeper over the module store without any hooks set.
func newBareKeeper(b *Base) *keeper.Keeper {
	k := keeper.NewKeeper(b.App.AppCodec(), addresscodec.NewBech32Codec("cosmos"), runtime.NewKVStoreService(b.App.GetKey(types.StoreKey)), log.NewNopLogger(),
		b.GovAddr, b.App.AccountKeeper, b.App.BankKeeper, b.App.DistrKeeper)
	return &k
}
